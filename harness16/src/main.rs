//! mv16 — the part of the harness that runs on a 16-bit-pointer target
//! (msp430-none-elf) under Miri, so that the `#[cfg(target_pointer_width =
//! "16")]` variants of mipidsi's take/nth helpers (src/graphics.rs) — code that
//! no host build compiles — are actually executed.
//!
//! no_std, no_main, no heap. Output goes through Miri's stdout shim; the exit
//! code is the number of failed cases (capped at 100).
#![no_std]
#![no_main]
#![feature(core_intrinsics)]
#![allow(internal_features)]
#![allow(static_mut_refs)]

use embedded_graphics_core::pixelcolor::raw::RawU16;
use embedded_graphics_core::pixelcolor::Rgb565;
use embedded_graphics_core::prelude::*;
use embedded_graphics_core::primitives::Rectangle;
use embedded_hal::delay::DelayNs;
use embedded_hal::digital::OutputPin;
use embedded_hal::spi::{Operation, SpiDevice};
use mipidsi::dcs::{InterfaceExt, SetAddressMode};
use mipidsi::interface::{Interface, InterfaceKind, SpiInterface};
use mipidsi::models::{Model, ModelInitError};
use mipidsi::options::ModelOptions;
use mipidsi::Builder;

extern "Rust" {
    fn miri_write_to_stdout(bytes: &[u8]);
}

fn out(s: &str) {
    unsafe { miri_write_to_stdout(s.as_bytes()) }
}
fn out_num(mut v: u32) {
    let mut b = [0u8; 10];
    let mut i = 10;
    if v == 0 {
        out("0");
        return;
    }
    while v > 0 {
        i -= 1;
        b[i] = b'0' + (v % 10) as u8;
        v /= 10;
    }
    unsafe { miri_write_to_stdout(&b[i..]) }
}
fn out_i(v: i32) {
    if v < 0 {
        out("-");
        out_num(v.unsigned_abs());
    } else {
        out_num(v as u32);
    }
}

#[panic_handler]
fn panic(info: &core::panic::PanicInfo) -> ! {
    out("PANIC in mv16");
    if let Some(l) = info.location() {
        out(" at ");
        out(l.file());
        out(":");
        out_num(l.line());
    }
    out("\n");
    core::intrinsics::abort()
}

// ---------------------------------------------------------------- recorder

const KEEP: usize = 96;
struct Rec {
    caset: (u16, u16),
    raset: (u16, u16),
    ramwr: u32,
    pixels: u32,
    /// first KEEP pixels of the last burst
    head: [u16; KEEP],
    /// order-sensitive hash of all pixels of the last burst
    hash: u32,
    in_ramwr: bool,
}
static mut REC: Rec = Rec { caset: (0, 0), raset: (0, 0), ramwr: 0, pixels: 0, head: [0; KEEP], hash: 0, in_ramwr: false };

fn mix(h: u32, v: u32) -> u32 {
    (h ^ v).wrapping_mul(0x0100_0193).rotate_left(5)
}

struct Di;
impl Interface for Di {
    type Word = u8;
    type Error = core::convert::Infallible;
    const KIND: InterfaceKind = InterfaceKind::Serial4Line;
    fn send_command(&mut self, command: u8, args: &[u8]) -> Result<(), Self::Error> {
        let r = unsafe { &mut REC };
        r.in_ramwr = false;
        match command {
            0x2A if args.len() == 4 => r.caset = ((args[0] as u16) << 8 | args[1] as u16, (args[2] as u16) << 8 | args[3] as u16),
            0x2B if args.len() == 4 => r.raset = ((args[0] as u16) << 8 | args[1] as u16, (args[2] as u16) << 8 | args[3] as u16),
            0x2C => {
                r.ramwr += 1;
                r.pixels = 0;
                r.hash = 0;
                r.in_ramwr = true;
            }
            _ => {}
        }
        Ok(())
    }
    fn send_pixels<const N: usize>(&mut self, pixels: impl IntoIterator<Item = [u8; N]>) -> Result<(), Self::Error> {
        let r = unsafe { &mut REC };
        for p in pixels {
            let v = (p[0] as u16) << 8 | p[1] as u16;
            if (r.pixels as usize) < KEEP {
                r.head[r.pixels as usize] = v;
            }
            r.hash = mix(r.hash, v as u32);
            r.pixels += 1;
        }
        Ok(())
    }
    fn send_repeated_pixel<const N: usize>(&mut self, pixel: [u8; N], count: u32) -> Result<(), Self::Error> {
        let r = unsafe { &mut REC };
        let v = (pixel[0] as u16) << 8 | pixel[1] as u16;
        let mut i = 0u32;
        while i < count {
            if (r.pixels as usize) < KEEP {
                r.head[r.pixels as usize] = v;
            }
            r.hash = mix(r.hash, v as u32);
            r.pixels += 1;
            i += 1;
        }
        Ok(())
    }
}

struct NoDelay;
impl DelayNs for NoDelay {
    fn delay_ns(&mut self, _: u32) {}
}

struct Ext<const W: u16, const H: u16>;
impl<const W: u16, const H: u16> Model for Ext<W, H> {
    type ColorFormat = Rgb565;
    const FRAMEBUFFER_SIZE: (u16, u16) = (W, H);
    fn init<DELAY: DelayNs, DI: Interface>(
        &mut self,
        di: &mut DI,
        _delay: &mut DELAY,
        options: &ModelOptions,
    ) -> Result<SetAddressMode, ModelInitError<DI::Error>> {
        let madctl = SetAddressMode::from(options);
        di.write_command(madctl)?;
        Ok(madctl)
    }
}

// ---------------------------------------------------------------- PRNG

struct Lcg(u32);
impl Lcg {
    fn next(&mut self) -> u32 {
        self.0 = self.0.wrapping_mul(1664525).wrapping_add(1013904223);
        self.0 >> 8
    }
    fn range(&mut self, lo: i32, hi: i32) -> i32 {
        lo + (self.next() % ((hi - lo + 1) as u32)) as i32
    }
}

/// colour stream: k -> Rgb565(raw = start + k), `len` items (u32::MAX = unbounded)
struct Colors {
    k: u32,
    len: u32,
    start: u16,
}
impl Iterator for Colors {
    type Item = Rgb565;
    fn next(&mut self) -> Option<Rgb565> {
        if self.k >= self.len {
            return None;
        }
        let v = self.start.wrapping_add(self.k as u16);
        self.k += 1;
        Some(Rgb565::from(RawU16::new(v)))
    }
}

/// One fill_contiguous case on a W x H display; returns true when the
/// recorded window and pixel stream equal the "colour k on point k" oracle.
fn case<const W: u16, const H: u16>(id: u32, x: i32, y: i32, w: u32, h: u32, len: u32, start: u16, verbose: bool) -> bool {
    let mut d = match Builder::new(Ext::<W, H>, Di).init(&mut NoDelay) {
        Ok(d) => d,
        Err(_) => {
            out("init failed\n");
            return false;
        }
    };
    unsafe {
        REC.ramwr = 0;
        REC.pixels = 0;
        REC.hash = 0;
    }
    let rect = Rectangle::new(Point::new(x, y), Size::new(w, h));
    let _ = d.fill_contiguous(&rect, Colors { k: 0, len, start });
    // oracle (all arithmetic in i32/u32: usize is 16 bits here)
    let x0 = if x < 0 { 0 } else { x };
    let y0 = if y < 0 { 0 } else { y };
    let x1 = core::cmp::min(x as i64 + w as i64 - 1, W as i64 - 1) as i32;
    let y1 = core::cmp::min(y as i64 + h as i64 - 1, H as i64 - 1) as i32;
    let visible = w > 0 && h > 0 && x0 <= x1 && y0 <= y1;
    let r = unsafe { &REC };
    let mut ok = true;
    if !visible {
        ok = r.ramwr == 0;
    } else {
        let mut n = 0u32;
        let mut hash = 0u32;
        let mut yy = y0;
        'rows: while yy <= y1 {
            let mut xx = x0;
            while xx <= x1 {
                let k = (yy - y) as u32 * w + (xx - x) as u32;
                if k >= len {
                    break 'rows;
                }
                let v = start.wrapping_add(k as u16);
                if (n as usize) < KEEP && r.head[n as usize] != v {
                    ok = false;
                }
                hash = mix(hash, v as u32);
                n += 1;
                xx += 1;
            }
            yy += 1;
        }
        if r.ramwr != 1 || r.pixels != n || r.hash != hash {
            ok = false;
        }
        if r.caset != (x0 as u16, x1 as u16) || r.raset != (y0 as u16, y1 as u16) {
            ok = false;
        }
        if verbose || !ok {
            out("C04-16 case ");
            out_num(id);
            out(if ok { " ok" } else { " MISMATCH" });
            out(" rect=(");
            out_i(x);
            out(",");
            out_i(y);
            out(",");
            out_num(w);
            out(",");
            out_num(h);
            out(") len=");
            out_num(len);
            out(" expected_pixels=");
            out_num(n);
            out(" got_pixels=");
            out_num(r.pixels);
            out(" ramwr=");
            out_num(r.ramwr);
            out("\n");
        }
    }
    if !visible && (verbose || !ok) {
        out("C04-16 case ");
        out_num(id);
        out(if ok { " ok (nothing visible)\n" } else { " MISMATCH (nothing visible but traffic)\n" });
    }
    ok
}

// ---------------------------------------------------------------- SPI sample (C06 on 16-bit usize)


struct SpiRec {
    n: u32,
    hash: u32,
    txns: u32,
}
static mut SPI: SpiRec = SpiRec { n: 0, hash: 0, txns: 0 };
struct Spi;
impl embedded_hal::spi::ErrorType for Spi {
    type Error = core::convert::Infallible;
}
impl SpiDevice for Spi {
    fn transaction(&mut self, operations: &mut [Operation<'_, u8>]) -> Result<(), Self::Error> {
        let s = unsafe { &mut SPI };
        s.txns += 1;
        if s.txns > 100_000 {
            panic!("SPI: too many transactions (no termination)");
        }
        for op in operations.iter() {
            if let Operation::Write(b) = op {
                for x in b.iter() {
                    s.hash = mix(s.hash, *x as u32);
                    s.n += 1;
                }
            }
        }
        Ok(())
    }
}
struct Pin;
impl embedded_hal::digital::ErrorType for Pin {
    type Error = core::convert::Infallible;
}
impl OutputPin for Pin {
    fn set_low(&mut self) -> Result<(), Self::Error> {
        Ok(())
    }
    fn set_high(&mut self) -> Result<(), Self::Error> {
        Ok(())
    }
}
static mut SPIBUF: [u8; 64] = [0xA5; 64];

fn spi_case(id: u32, buf_len: usize, count: u32, px: [u8; 3], repeated: bool) -> bool {
    unsafe {
        SPI.n = 0;
        SPI.hash = 0;
        SPI.txns = 0;
        for b in SPIBUF.iter_mut() {
            *b = 0xA5;
        }
    }
    let buf = unsafe { &mut SPIBUF[..buf_len] };
    let mut di = SpiInterface::new(Spi, Pin, buf);
    if repeated {
        let _ = di.send_repeated_pixel(px, count);
    } else {
        let _ = di.send_pixels((0..count).map(|i| [px[0].wrapping_add(i as u8), px[1], px[2]]));
    }
    let mut hash = 0u32;
    let mut i = 0u32;
    while i < count {
        let p0 = if repeated { px[0] } else { px[0].wrapping_add(i as u8) };
        hash = mix(hash, p0 as u32);
        hash = mix(hash, px[1] as u32);
        hash = mix(hash, px[2] as u32);
        i += 1;
    }
    let s = unsafe { &SPI };
    let ok = s.n == count * 3 && s.hash == hash;
    if !ok {
        out("C06-16 case ");
        out_num(id);
        out(" MISMATCH bytes=");
        out_num(s.n);
        out(" expected=");
        out_num(count * 3);
        out("\n");
    }
    ok
}

/// Miri's 16-bit address space (64 KiB) is a *lifetime* budget: addresses of dead stack
/// allocations are not reused, so one process can run only a few hundred iterator steps.
/// Hence one case per process; the orchestrator starts one process per case id.
fn parse_arg(argc: isize, argv: *const *const u8) -> u32 {
    if argc < 2 {
        return 0;
    }
    let mut v = 0u32;
    unsafe {
        let mut p = *argv.offset(1);
        while *p != 0 {
            if *p >= b'0' && *p <= b'9' {
                v = v * 10 + (*p - b'0') as u32;
            }
            p = p.offset(1);
        }
    }
    v
}

const N_TABLE: u32 = 9 * 8 * 3;
const N_RANDOM: u32 = 60;
const N_SPI: u32 = 5 * 8 * 2;

#[no_mangle]
fn miri_start(argc: isize, argv: *const *const u8) -> isize {
    let want = parse_arg(argc, argv);
    if want == 0 {
        out("mv16 pointer_width=");
        out_num(core::mem::size_of::<usize>() as u32 * 8);
        out(" cases=");
        out_num(N_TABLE + N_RANDOM + N_SPI);
        out("\n");
        return 0;
    }
    let mut id = 0u32;
    // (a) table on a 7x5 display: every clip relation per axis x stream lengths
    let xs: [(i32, u32); 9] = [(0, 7), (2, 3), (-2, 4), (5, 6), (-3, 20), (-9, 3), (9, 2), (3, 0), (6, 1)];
    let ys: [(i32, u32); 8] = [(0, 5), (1, 2), (-1, 3), (3, 9), (-4, 30), (-7, 2), (6, 1), (4, 1)];
    if want <= N_TABLE {
        for (xi, (x, w)) in xs.iter().enumerate() {
            for (yi, (y, h)) in ys.iter().enumerate() {
                let area = *w * *h;
                let lens = [0u32, 1, area / 2, area.saturating_sub(1), area, area + 5, u32::MAX];
                for j in 0..3 {
                    id += 1;
                    if id == want {
                        let len = lens[(xi + yi * 2 + j * 3) % 7];
                        let ok = case::<7, 5>(id, *x, *y, *w, *h, len, (id.wrapping_mul(2654435761u32) >> 16) as u16, true);
                        return if ok { 0 } else { 1 };
                    }
                }
            }
        }
    }
    // (b) pseudo-random rectangles on a 13x3 display
    if want <= N_TABLE + N_RANDOM {
        let mut rng = Lcg(0xC04_16 ^ want.wrapping_mul(7919));
        let x = rng.range(-20, 16);
        let y = rng.range(-6, 5);
        let w = rng.range(0, 30) as u32;
        let h = rng.range(0, 9) as u32;
        let area = w * h;
        let len = match rng.next() % 4 {
            0 => u32::MAX,
            1 => area,
            2 => rng.next() % (area + 2),
            _ => area + 3,
        };
        let ok = case::<13, 3>(want, x, y, w, h, len, rng.next() as u16, true);
        return if ok { 0 } else { 1 };
    }
    // (c) SPI transport with a 16-bit usize
    id = N_TABLE + N_RANDOM;
    let mut rng = Lcg(0xC06_16 ^ want.wrapping_mul(104729));
    for buf_len in [3usize, 4, 7, 9, 16] {
        let cap = (buf_len / 3) as u32;
        for count in [0u32, 1, cap, cap + 1, 2 * cap, 2 * cap + 1, 11, 13] {
            for repeated in [true, false] {
                id += 1;
                if id == want {
                    let ok = spi_case(id, buf_len, count, [rng.next() as u8, rng.next() as u8, rng.next() as u8], repeated);
                    out("C06-16 case ");
                    out_num(id);
                    out(if ok { " ok" } else { " MISMATCH" });
                    out(" buf=");
                    out_num(buf_len as u32);
                    out(" count=");
                    out_num(count);
                    out(if repeated { " repeated\n" } else { " stream\n" });
                    return if ok { 0 } else { 1 };
                }
            }
        }
    }
    out("mv16: no such case\n");
    2
}
