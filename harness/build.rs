//! Finds built-in models the harness has no hand-written entry for.
//!
//! The properties quantify over "every built-in model"; a model added to the crate later must
//! be driven by the same monitors. This script scans the mipidsi sources the harness is built
//! against for `impl Model for <Name>` items, drops the names the harness knows, and generates
//! glue (constructor, dispatch) for the rest so that they become `ModelId::Extra(i)`.
//! A model it cannot wire (not a unit struct in `mipidsi::models`, colour format other than
//! Rgb565 / Rgb666) is listed in EXTRA_SKIPPED; `check` reports such a model as inconclusive.

use std::{env, fs, path::PathBuf};

const KNOWN: [&str; 14] = [
    "GC9107", "GC9A01", "ILI9341Rgb565", "ILI9341Rgb666", "ILI9342CRgb565", "ILI9342CRgb666", "ILI9486Rgb565", "ILI9486Rgb666",
    "ILI9488Rgb565", "ILI9488Rgb666", "RM67162", "ST7735s", "ST7789", "ST7796",
];

fn main() {
    let manifest = PathBuf::from(env::var("CARGO_MANIFEST_DIR").unwrap());
    let toml = fs::read_to_string(manifest.join("Cargo.toml")).unwrap();
    // mipidsi = { path = "...", ... }
    let repo = toml
        .lines()
        .find(|l| l.trim_start().starts_with("mipidsi"))
        .and_then(|l| l.split("path").nth(1))
        .and_then(|r| r.split('"').nth(1))
        .map(PathBuf::from)
        .expect("mipidsi path dependency");
    let mut files = vec![repo.join("src/models.rs")];
    println!("cargo:rerun-if-changed={}", repo.join("src/models.rs").display());
    println!("cargo:rerun-if-changed={}", repo.join("src/models").display());
    // only model files that src/models.rs really exports (`mod x;` and `pub use x::`): a stray
    // file in the directory is not part of the crate
    let models_rs = fs::read_to_string(repo.join("src/models.rs")).unwrap_or_default();
    if let Ok(rd) = fs::read_dir(repo.join("src/models")) {
        let mut v: Vec<PathBuf> = rd.filter_map(|e| e.ok()).map(|e| e.path()).filter(|p| p.extension().map(|x| x == "rs").unwrap_or(false)).collect();
        v.sort();
        for p in &v {
            println!("cargo:rerun-if-changed={}", p.display());
        }
        v.retain(|p| {
            let stem = p.file_stem().and_then(|s| s.to_str()).unwrap_or("");
            models_rs.contains(&format!("mod {};", stem)) && models_rs.contains(&format!("pub use {}::", stem))
        });
        files.extend(v);
    }
    // (name, colour format or reason for skipping)
    let mut found: Vec<(String, Result<u8, String>)> = Vec::new();
    for f in files {
        let Ok(text) = fs::read_to_string(&f) else { continue };
        // everything after a `#[cfg(test)]` line is test code
        let text = text.split("#[cfg(test)]").next().unwrap_or("").to_string();
        let mut rest = text.as_str();
        while let Some(i) = rest.find("impl Model for ") {
            rest = &rest[i + "impl Model for ".len()..];
            let name: String = rest.chars().take_while(|c| c.is_alphanumeric() || *c == '_').collect();
            if name.is_empty() || KNOWN.contains(&name.as_str()) || found.iter().any(|(n, _)| *n == name) {
                continue;
            }
            let body_end = rest.find("\nimpl ").unwrap_or(rest.len());
            let body = &rest[..body_end];
            let cf = body.split("type ColorFormat").nth(1).and_then(|r| r.split('=').nth(1)).map(|r| r.split(';').next().unwrap_or("").trim().to_string());
            let unit = text.contains(&format!("pub struct {};", name));
            let res = match (unit, cf.as_deref()) {
                (false, _) => Err("not a unit struct".to_string()),
                (true, Some("Rgb565")) => Ok(16),
                (true, Some("Rgb666")) => Ok(18),
                (true, other) => Err(format!("colour format {:?} not wired", other)),
            };
            found.push((name, res));
        }
    }
    let wired: Vec<(&String, u8)> = found.iter().filter_map(|(n, r)| r.as_ref().ok().map(|b| (n, *b))).collect();
    let skipped: Vec<String> = found.iter().filter_map(|(n, r)| r.as_ref().err().map(|e| format!("{}: {}", n, e))).collect();
    let mut out = String::new();
    out += &format!("pub const EXTRA_NAMES: &[&str] = &{:?};\n", wired.iter().map(|(n, _)| n.as_str()).collect::<Vec<_>>());
    out += &format!("pub const EXTRA_BITS: &[u8] = &{:?};\n", wired.iter().map(|(_, b)| *b).collect::<Vec<_>>());
    out += &format!("pub const EXTRA_SKIPPED: &[&str] = &{:?};\n", skipped);
    for (n, _) in &wired {
        out += &format!("impl MkModel for models::{n} {{ fn mk() -> Self {{ models::{n} }} }}\n");
    }
    out += "#[allow(unused_variables)]\npub fn extra_fb(i: u8) -> (u16, u16) {\n    match i {\n";
    for (k, (n, _)) in wired.iter().enumerate() {
        out += &format!("        {k} => <models::{n} as Model>::FRAMEBUFFER_SIZE,\n");
    }
    out += "        _ => unreachable!(),\n    }\n}\n";
    out += "#[allow(unused_variables)]\nfn extra_build(i: u8, cfg: &DispCfg, tl: &Tl) -> Built {\n    match i {\n";
    for (k, (n, b)) in wired.iter().enumerate() {
        let go = if *b == 16 { "go565" } else { "go666" };
        out += &format!("        {k} => {go}::<models::{n}>(cfg, tl),\n");
    }
    out += "        _ => unreachable!(),\n    }\n}\n";
    out += "#[allow(unused_variables)]\nfn extra_init_direct(i: u8, kind: Kind, opts: &ModelOptions, tl: &Tl) -> Result<u8, InitResult> {\n    match i {\n";
    for (k, (n, _)) in wired.iter().enumerate() {
        out += &format!("        {k} => init_direct_by_kind::<models::{n}>(kind, opts, tl),\n");
    }
    out += "        _ => unreachable!(),\n    }\n}\n";
    let dest = PathBuf::from(env::var("OUT_DIR").unwrap()).join("extra_models.rs");
    fs::write(dest, out).unwrap();
}
