//! A draw target that records the DrawTarget calls made on it as `Op`s.
//! Used to turn embedded-graphics drawables (primitives, text, the crate's
//! TestImage) into type-independent operation lists.

use embedded_graphics::mono_font::{ascii::FONT_6X10, MonoTextStyle};
use embedded_graphics::primitives::{Primitive, Circle, Line, PrimitiveStyle, PrimitiveStyleBuilder, RoundedRectangle, Triangle};
use embedded_graphics::text::Text;
use embedded_graphics_core::pixelcolor::{Rgb565, Rgb666};
use embedded_graphics_core::prelude::*;
use embedded_graphics_core::primitives::Rectangle;

use crate::ops::{Op, Rect, Stream, TagColor};
use crate::prng::Rng;

pub struct Capture<C> {
    pub w: u32,
    pub h: u32,
    pub ops: Vec<Op>,
    _p: std::marker::PhantomData<C>,
}
impl<C> Capture<C> {
    pub fn new(w: u32, h: u32) -> Self {
        Capture { w, h, ops: Vec::new(), _p: std::marker::PhantomData }
    }
}
impl<C: TagColor> OriginDimensions for Capture<C> {
    fn size(&self) -> Size {
        Size::new(self.w, self.h)
    }
}
fn rect_of(r: &Rectangle) -> Rect {
    Rect { x: r.top_left.x, y: r.top_left.y, w: r.size.width, h: r.size.height }
}
impl<C: TagColor> DrawTarget for Capture<C> {
    type Color = C;
    type Error = core::convert::Infallible;
    fn draw_iter<I: IntoIterator<Item = Pixel<C>>>(&mut self, pixels: I) -> Result<(), Self::Error> {
        let pixels: Vec<(i32, i32, u32)> = pixels.into_iter().map(|Pixel(p, c)| (p.x, p.y, c.raw())).collect();
        self.ops.push(Op::DrawIter { pixels });
        Ok(())
    }
    fn fill_contiguous<I: IntoIterator<Item = C>>(&mut self, area: &Rectangle, colors: I) -> Result<(), Self::Error> {
        let n = area.size.width as u64 * area.size.height as u64;
        let v: Vec<u32> = colors.into_iter().take(n as usize).map(|c| c.raw()).collect();
        self.ops.push(Op::FillContiguous { rect: rect_of(area), colors: Stream::Explicit(v) });
        Ok(())
    }
    fn fill_solid(&mut self, area: &Rectangle, color: C) -> Result<(), Self::Error> {
        self.ops.push(Op::FillSolid { rect: rect_of(area), c: color.raw() });
        Ok(())
    }
    fn clear(&mut self, color: C) -> Result<(), Self::Error> {
        self.ops.push(Op::Clear { c: color.raw() });
        Ok(())
    }
}

/// The DrawTarget calls TestImage makes on a target of the given size.
pub fn test_image_ops(w: u32, h: u32, bits: u8) -> Vec<Op> {
    if bits == 16 {
        let mut c = Capture::<Rgb565>::new(w, h);
        mipidsi::TestImage::<Rgb565>::new().draw(&mut c).unwrap();
        c.ops
    } else {
        let mut c = Capture::<Rgb666>::new(w, h);
        mipidsi::TestImage::<Rgb666>::new().draw(&mut c).unwrap();
        c.ops
    }
}

fn prim_ops_c<C: TagColor>(w: u32, h: u32, rng: &mut Rng, reach: i32) -> Vec<Op> {
    let mut c = Capture::<C>::new(w, h);
    let pt = |rng: &mut Rng| Point::new(rng.range(-(reach as i64), w as i64 + reach as i64) as i32, rng.range(-(reach as i64), h as i64 + reach as i64) as i32);
    let col = |rng: &mut Rng| C::from_tag(rng.next() as u32 & C::mask());
    let style = |rng: &mut Rng| -> PrimitiveStyle<C> {
        let mut b = PrimitiveStyleBuilder::new();
        if rng.bool() {
            b = b.fill_color(col(rng));
        }
        b = b.stroke_color(col(rng)).stroke_width(rng.range(1, 3) as u32);
        b.build()
    };
    match rng.below(6) {
        0 => {
            let (a, b) = (pt(rng), pt(rng));
            let _ = Line::new(a, b).into_styled(style(rng)).draw(&mut c);
        }
        1 => {
            let p = pt(rng);
            let d = rng.range(1, (w.max(h) as i64).min(40) + 2) as u32;
            let _ = Circle::new(p, d).into_styled(style(rng)).draw(&mut c);
        }
        2 => {
            let (p1, p2, p3) = (pt(rng), pt(rng), pt(rng));
            let _ = Triangle::new(p1, p2, p3).into_styled(style(rng)).draw(&mut c);
        }
        3 => {
            let p = pt(rng);
            let s = Size::new(rng.range(1, 30) as u32, rng.range(1, 30) as u32);
            let _ = RoundedRectangle::with_equal_corners(Rectangle::new(p, s), Size::new(3, 3)).into_styled(style(rng)).draw(&mut c);
        }
        4 => {
            let p = pt(rng);
            let st = MonoTextStyle::new(&FONT_6X10, col(rng));
            let _ = Text::new("mipi DSI 09", p, st).draw(&mut c);
        }
        _ => {
            let p = pt(rng);
            let s = Size::new(rng.range(1, 40) as u32, rng.range(1, 40) as u32);
            let _ = Rectangle::new(p, s).into_styled(style(rng)).draw(&mut c);
        }
    }
    c.ops
}

/// Operations produced by a random embedded-graphics drawable on a target of
/// the given logical size; `reach` pushes it partly off-screen.
pub fn prim_ops(w: u32, h: u32, bits: u8, rng: &mut Rng, reach: i32) -> Vec<Op> {
    if bits == 16 {
        prim_ops_c::<Rgb565>(w, h, rng, reach)
    } else {
        prim_ops_c::<Rgb666>(w, h, rng, reach)
    }
}
