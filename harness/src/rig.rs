//! The real driver under observation: `Builder::init` + `Display` for every
//! (model, transport, reset-pin) combination, behind one object-safe trait.

use std::panic::{catch_unwind, AssertUnwindSafe};

use embedded_graphics_core::pixelcolor::{Rgb565, Rgb666};
use embedded_graphics_core::prelude::*;
use embedded_hal::delay::DelayNs;
use mipidsi::dcs::{
    BitsPerPixel, ExitSleepMode, InterfaceExt, PixelFormat, SetAddressMode, SetDisplayOn, SetInvertMode,
    SetPixelFormat,
};
use mipidsi::interface::{
    Generic16BitBus, Generic8BitBus, Interface, InterfaceKind, InterfacePixelFormat, ParallelError,
    ParallelInterface, SpiError, SpiInterface,
};
use mipidsi::models::{self, Model, ModelInitError};
use mipidsi::options::{
    ColorInversion, ColorOrder, HorizontalRefreshOrder, ModelOptions, Orientation, RefreshOrder, Rotation,
    TearingEffect, VerticalRefreshOrder,
};
use mipidsi::{Builder, ConfigurationError, Display, InitError, NoResetPin, TestImage};

use crate::hal::{BudgetExceeded, Delay, Fault, KP16, KP8, KSerial, Pin, Spi, Src, Tl, L1};
use crate::ops::{Op, TagColor};
use crate::spec::Ori;

// ------------------------------------------------------------------ ids

#[derive(Clone, Copy, Debug, PartialEq, Eq, Hash, PartialOrd, Ord)]
pub enum ModelId {
    GC9107,
    GC9A01,
    ILI9341Rgb565,
    ILI9341Rgb666,
    ILI9342CRgb565,
    ILI9342CRgb666,
    ILI9486Rgb565,
    ILI9486Rgb666,
    ILI9488Rgb565,
    ILI9488Rgb666,
    RM67162,
    ST7735s,
    ST7789,
    ST7796,
    // external models (harness-defined `Model` impls)
    Ext1x1,
    Ext2x3,
    Ext7x5,
    Ext16x16,
    Ext64x48,
    Ext256x256,
    Ext240x320c666,
    Ext65535x1,
    Ext1x65535,
    Ext32768,
    Ext65535,
    Ext65535c666,
    /// 100x60, natively BGR: init programs and returns the address mode with the colour
    /// order bit inverted relative to the options
    ExtQuirk,
    /// a built-in model of the tree under test that the harness has no hand-written entry
    /// for (found by build.rs): index into EXTRA_NAMES
    Extra(u8),
}

include!(concat!(env!("OUT_DIR"), "/extra_models.rs"));

/// All built-in models of the tree under test: the 14 the harness was written against plus
/// whatever build.rs found in addition.
pub fn builtin() -> Vec<ModelId> {
    let mut v = BUILTIN.to_vec();
    v.extend((0..EXTRA_NAMES.len()).map(|i| ModelId::Extra(i as u8)));
    v
}

pub const BUILTIN: [ModelId; 14] = [
    ModelId::GC9107,
    ModelId::GC9A01,
    ModelId::ILI9341Rgb565,
    ModelId::ILI9341Rgb666,
    ModelId::ILI9342CRgb565,
    ModelId::ILI9342CRgb666,
    ModelId::ILI9486Rgb565,
    ModelId::ILI9486Rgb666,
    ModelId::ILI9488Rgb565,
    ModelId::ILI9488Rgb666,
    ModelId::RM67162,
    ModelId::ST7735s,
    ModelId::ST7789,
    ModelId::ST7796,
];
pub const EXTERNAL: [ModelId; 13] = [
    ModelId::Ext1x1,
    ModelId::Ext2x3,
    ModelId::Ext7x5,
    ModelId::Ext16x16,
    ModelId::Ext64x48,
    ModelId::Ext256x256,
    ModelId::Ext240x320c666,
    ModelId::Ext65535x1,
    ModelId::Ext1x65535,
    ModelId::Ext32768,
    ModelId::Ext65535,
    ModelId::Ext65535c666,
    ModelId::ExtQuirk,
];

/// The `impl Model for <name>` items the harness knows in /repo/src/models.
pub const BUILTIN_TYPE_NAMES: [&str; 14] = [
    "GC9107",
    "GC9A01",
    "ILI9341Rgb565",
    "ILI9341Rgb666",
    "ILI9342CRgb565",
    "ILI9342CRgb666",
    "ILI9486Rgb565",
    "ILI9486Rgb666",
    "ILI9488Rgb565",
    "ILI9488Rgb666",
    "RM67162",
    "ST7735s",
    "ST7789",
    "ST7796",
];

impl ModelId {
    pub fn name(self) -> String {
        match self {
            ModelId::Extra(i) => EXTRA_NAMES[i as usize].to_string(),
            _ => format!("{:?}", self),
        }
    }
    /// a small distinct number per model (hashing, deterministic variation)
    pub fn ord(self) -> u64 {
        match self {
            ModelId::Extra(i) => 64 + i as u64,
            _ => BUILTIN.iter().chain(EXTERNAL.iter()).position(|m| *m == self).unwrap_or(63) as u64,
        }
    }
    pub fn is_builtin(self) -> bool {
        BUILTIN.contains(&self) || matches!(self, ModelId::Extra(_))
    }
    /// framebuffer size as *documented for the controller* (independent table,
    /// cross-checked against Model::FRAMEBUFFER_SIZE at start-up)
    pub fn fb(self) -> (u16, u16) {
        use ModelId::*;
        match self {
            GC9107 => (128, 160),
            GC9A01 => (240, 240),
            ILI9341Rgb565 | ILI9341Rgb666 => (240, 320),
            ILI9342CRgb565 | ILI9342CRgb666 => (320, 240),
            ILI9486Rgb565 | ILI9486Rgb666 | ILI9488Rgb565 | ILI9488Rgb666 => (320, 480),
            RM67162 => (240, 536),
            ST7735s => (132, 162),
            ST7789 => (240, 320),
            ST7796 => (320, 480),
            Ext1x1 => (1, 1),
            Ext2x3 => (2, 3),
            Ext7x5 => (7, 5),
            Ext16x16 => (16, 16),
            Ext64x48 => (64, 48),
            Ext256x256 => (256, 256),
            Ext240x320c666 => (240, 320),
            Ext65535x1 => (65535, 1),
            Ext1x65535 => (1, 65535),
            Ext32768 => (32768, 32768),
            Ext65535 | Ext65535c666 => (65535, 65535),
            ExtQuirk => (100, 60),
            // no independent table for a model the harness was not written against
            Extra(i) => extra_fb(i),
        }
    }
    pub fn bits(self) -> u8 {
        use ModelId::*;
        match self {
            Extra(i) => EXTRA_BITS[i as usize],
            ILI9341Rgb666 | ILI9342CRgb666 | ILI9486Rgb666 | ILI9488Rgb666 | Ext240x320c666 | Ext65535c666 => 18,
            _ => 16,
        }
    }
    /// Committed support matrix (model x interface kind) of this tree.
    pub fn supports(self, kind: Kind) -> bool {
        use ModelId::*;
        match self {
            ILI9486Rgb565 => kind != Kind::Serial,
            RM67162 | GC9107 => kind != Kind::Par16,
            // no committed matrix for it: what the model itself accepts (probed once); C11 checks
            // that a refusal happens before any command
            Extra(i) => {
                static PROBED: std::sync::OnceLock<Vec<[bool; 3]>> = std::sync::OnceLock::new();
                let t = PROBED.get_or_init(|| {
                    (0..EXTRA_NAMES.len())
                        .map(|j| {
                            let mut r = [true; 3];
                            for (k, kind) in [Kind::Serial, Kind::Par8, Kind::Par16].into_iter().enumerate() {
                                let tl = Tl::new(if kind == Kind::Par16 { 16 } else { 8 });
                                tl.begin_call(1 << 20, None);
                                let res = model_init_direct(ModelId::Extra(j as u8), kind, &ModelOptions::with_all(extra_fb(j as u8), (0, 0)), &tl);
                                tl.end_call();
                                r[k] = !matches!(res, Ok(Err(InitResult::Unsupported)));
                            }
                            r
                        })
                        .collect()
                });
                t[i as usize][match kind {
                    Kind::Serial => 0,
                    Kind::Par8 => 1,
                    Kind::Par16 => 2,
                }]
            }
            _ => true,
        }
    }
}

#[derive(Clone, Copy, Debug, PartialEq, Eq, Hash, PartialOrd, Ord)]
pub enum Kind {
    Serial,
    Par8,
    Par16,
}

#[derive(Clone, Copy, Debug, PartialEq, Eq, Hash, PartialOrd, Ord)]
pub enum Tr {
    Spi,
    P8,
    P16,
    L1S,
    L1P8,
    L1P16,
    /// the serial recorder handed to the driver as `&mut T` (the crate's
    /// forwarding `impl Interface for &mut T`)
    L1Ref,
    /// a user-written interface of kind Serial4Line that takes 16-bit words (an SPI peripheral
    /// in 16-bit frame mode): a (word type, kind) pair none of the crate's own interfaces has
    L1S16,
}
pub const ALL_TR: [Tr; 8] = [Tr::Spi, Tr::P8, Tr::P16, Tr::L1S, Tr::L1P8, Tr::L1P16, Tr::L1Ref, Tr::L1S16];
impl Tr {
    pub fn kind(self) -> Kind {
        match self {
            Tr::Spi | Tr::L1S | Tr::L1Ref | Tr::L1S16 => Kind::Serial,
            Tr::P8 | Tr::L1P8 => Kind::Par8,
            Tr::P16 | Tr::L1P16 => Kind::Par16,
        }
    }
    pub fn width(self) -> u8 {
        if matches!(self, Tr::P16 | Tr::L1P16 | Tr::L1S16) {
            16
        } else {
            8
        }
    }
    pub fn is_l2(self) -> bool {
        matches!(self, Tr::Spi | Tr::P8 | Tr::P16)
    }
    pub fn name(self) -> &'static str {
        match self {
            Tr::Spi => "spi",
            Tr::P8 => "par8",
            Tr::P16 => "par16",
            Tr::L1S => "l1-serial",
            Tr::L1P8 => "l1-par8",
            Tr::L1P16 => "l1-par16",
            Tr::L1Ref => "l1-serial-by-ref",
            Tr::L1S16 => "l1-serial-16-bit-words",
        }
    }
    /// can `Builder` express this colour depth on this transport?
    pub fn type_checks(self, bits: u8) -> bool {
        bits == 16 || self.width() == 8
    }
}

#[derive(Clone, Debug, PartialEq, Eq, Hash)]
pub struct DispCfg {
    pub model: ModelId,
    pub tr: Tr,
    pub spi_buf: usize,
    pub w: u16,
    pub h: u16,
    pub ox: u16,
    pub oy: u16,
    pub ori: Ori,
    pub bgr: bool,
    /// bit0: bottom-to-top, bit1: right-to-left
    pub refresh: u8,
    pub invert: bool,
    pub rst: bool,
    /// how the builder is driven: order of the option setters, position of `reset_pin` among
    /// them, and whether the parallel bus is built with `new` or through `From` (0 = colour
    /// order, orientation, inversion, refresh order, size, offset, then reset pin; `new`)
    pub order: u16,
}

impl DispCfg {
    pub fn full(model: ModelId, tr: Tr) -> DispCfg {
        let (w, h) = model.fb();
        DispCfg {
            model,
            tr,
            spi_buf: 64,
            w,
            h,
            ox: 0,
            oy: 0,
            ori: Ori(0),
            bgr: false,
            refresh: 0,
            invert: false,
            rst: true,
            order: 0,
        }
    }
    pub fn to_json(&self) -> crate::json::J {
        crate::json::J::obj()
            .with("model", self.model.name())
            .with("transport", self.tr.name())
            .with("spi_buf", self.spi_buf)
            .with("spi_buf_address_mod_4", self.spi_buf_offset())
            .with("size", vec![self.w, self.h])
            .with("offset", vec![self.ox, self.oy])
            .with("orientation", self.ori.name())
            .with("bgr", self.bgr)
            .with("refresh", self.refresh)
            .with("invert", self.invert)
            .with("reset_pin", self.rst)
            .with("builder_call_order", self.order)
    }
    /// deterministic from the rest of the configuration
    pub fn spi_buf_offset(&self) -> usize {
        (self.order as usize / 3 + self.ox as usize + self.w as usize * 3 + self.spi_buf / 5 + self.ori.0 as usize) % 4
    }
    pub fn options(&self) -> ModelOptions {
        let mut o = ModelOptions::with_all((self.w, self.h), (self.ox, self.oy));
        o.color_order = if self.bgr { ColorOrder::Bgr } else { ColorOrder::Rgb };
        o.orientation = to_orientation(self.ori);
        o.invert_colors = if self.invert { ColorInversion::Inverted } else { ColorInversion::Normal };
        o.refresh_order = to_refresh(self.refresh);
        o
    }
}

pub fn to_orientation(o: Ori) -> Orientation {
    let rotation = match o.rot() {
        0 => Rotation::Deg0,
        1 => Rotation::Deg90,
        2 => Rotation::Deg180,
        _ => Rotation::Deg270,
    };
    // plain struct literal: does not go through rotate()/flip_*()
    Orientation { rotation, mirrored: o.mirrored() }
}
pub fn from_orientation(o: Orientation) -> Ori {
    let r = match o.rotation {
        Rotation::Deg0 => 0,
        Rotation::Deg90 => 1,
        Rotation::Deg180 => 2,
        Rotation::Deg270 => 3,
    };
    Ori(r | if o.mirrored { 4 } else { 0 })
}
pub fn to_refresh(r: u8) -> RefreshOrder {
    RefreshOrder::new(
        if r & 1 != 0 { VerticalRefreshOrder::BottomToTop } else { VerticalRefreshOrder::TopToBottom },
        if r & 2 != 0 { HorizontalRefreshOrder::RightToLeft } else { HorizontalRefreshOrder::LeftToRight },
    )
}

// ------------------------------------------------------------------ errors

/// Classification of the driver's error values.
#[derive(Clone, Debug, PartialEq, Eq)]
pub struct ErrInfo {
    /// "spi" | "dc" | "bus" | "wr" | "l1"
    pub variant: &'static str,
    pub fault: Fault,
}
pub trait Classify: core::fmt::Debug {
    fn classify(&self) -> ErrInfo;
}
impl Classify for Fault {
    fn classify(&self) -> ErrInfo {
        ErrInfo { variant: "l1", fault: *self }
    }
}
impl Classify for SpiError<Fault, Fault> {
    fn classify(&self) -> ErrInfo {
        match self {
            SpiError::Spi(f) => ErrInfo { variant: "spi", fault: *f },
            SpiError::Dc(f) => ErrInfo { variant: "dc", fault: *f },
        }
    }
}
impl Classify for ParallelError<Fault, Fault, Fault> {
    fn classify(&self) -> ErrInfo {
        match self {
            ParallelError::Bus(f) => ErrInfo { variant: "bus", fault: *f },
            ParallelError::Dc(f) => ErrInfo { variant: "dc", fault: *f },
            ParallelError::Wr(f) => ErrInfo { variant: "wr", fault: *f },
        }
    }
}

/// Which error variant must name a fault from this source on this transport.
pub fn expected_variant(src: Src) -> &'static str {
    match src {
        Src::Spi => "spi",
        Src::Dc => "dc",
        Src::Wr => "wr",
        Src::D(_) => "bus",
        Src::L1 => "l1",
        Src::Rst => "reset-pin",
    }
}

#[derive(Clone, Debug, PartialEq, Eq)]
pub enum CallResult {
    Ok,
    Err(ErrInfo),
    Panic { msg: String, loc: String },
    Budget { ops: u64 },
}

#[derive(Clone, Debug, PartialEq, Eq)]
pub enum InitResult {
    Ok,
    Interface(ErrInfo),
    ResetPin(Fault),
    InvalidSize,
    InvalidOffset,
    Unsupported,
    Panic { msg: String, loc: String },
    Budget { ops: u64 },
}

// ------------------------------------------------------------------ panics

thread_local! {
    static IN_DRIVER: std::cell::Cell<bool> = const { std::cell::Cell::new(false) };
    static LAST_PANIC: std::cell::RefCell<(String, String)> = std::cell::RefCell::new((String::new(), String::new()));
}

pub fn install_panic_hook() {
    std::panic::set_hook(Box::new(|info| {
        let msg = if let Some(s) = info.payload().downcast_ref::<&str>() {
            s.to_string()
        } else if let Some(s) = info.payload().downcast_ref::<String>() {
            s.clone()
        } else if info.payload().downcast_ref::<BudgetExceeded>().is_some() {
            "budget exceeded".to_string()
        } else {
            "non-string panic".to_string()
        };
        let loc = info.location().map(|l| format!("{}:{}", l.file(), l.line())).unwrap_or_default();
        if !IN_DRIVER.with(|f| f.get()) {
            // a panic of the harness itself: make it visible
            eprintln!("HARNESS PANIC at {}: {}", loc, msg);
            if std::env::var_os("MV_BACKTRACE").is_some() {
                eprintln!("{}", std::backtrace::Backtrace::force_capture());
            }
        }
        LAST_PANIC.with(|p| *p.borrow_mut() = (msg, loc));
    }));
}

/// Run `f`, converting a panic into a value.
pub fn guarded<T>(f: impl FnOnce() -> T) -> Result<T, CallResult> {
    let prev = IN_DRIVER.with(|x| x.replace(true));
    let r = catch_unwind(AssertUnwindSafe(f));
    IN_DRIVER.with(|x| x.set(prev));
    match r {
        Ok(v) => Ok(v),
        Err(payload) => {
            if let Some(b) = payload.downcast_ref::<BudgetExceeded>() {
                Err(CallResult::Budget { ops: b.ops })
            } else {
                let (msg, loc) = LAST_PANIC.with(|p| p.borrow().clone());
                Err(CallResult::Panic { msg, loc: strip_loc(&loc) })
            }
        }
    }
}

/// "…/src/batch.rs:317" -> "src/batch.rs:317" for files of the repo,
/// crate-relative for registry crates.
pub fn strip_loc(loc: &str) -> String {
    if let Some(i) = loc.find("/repo/") {
        return loc[i + 6..].to_string();
    }
    if let Some(i) = loc.find("/registry/src/") {
        let rest = &loc[i + 14..];
        if let Some(j) = rest.find('/') {
            return rest[j + 1..].to_string();
        }
    }
    if let Some(i) = loc.find("/library/") {
        return loc[i + 1..].to_string();
    }
    loc.to_string()
}

// ------------------------------------------------------------------ models

pub trait MkModel: Model + 'static {
    fn mk() -> Self;
}
macro_rules! unit_model {
    ($($t:ident),*) => {$(impl MkModel for models::$t { fn mk() -> Self { models::$t } })*};
}
unit_model!(
    GC9107,
    GC9A01,
    ILI9341Rgb565,
    ILI9341Rgb666,
    ILI9342CRgb565,
    ILI9342CRgb666,
    ILI9486Rgb565,
    ILI9486Rgb666,
    ILI9488Rgb565,
    ILI9488Rgb666,
    RM67162,
    ST7735s,
    ST7789,
    ST7796
);

/// External model: arbitrary framebuffer size, generic MIPI init.
pub struct Ext<const W: u16, const H: u16, C>(std::marker::PhantomData<C>);
impl<const W: u16, const H: u16, C: RgbColor + 'static> Model for Ext<W, H, C> {
    type ColorFormat = C;
    const FRAMEBUFFER_SIZE: (u16, u16) = (W, H);
    fn init<DELAY, DI>(
        &mut self,
        di: &mut DI,
        delay: &mut DELAY,
        options: &ModelOptions,
    ) -> Result<SetAddressMode, ModelInitError<DI::Error>>
    where
        DELAY: DelayNs,
        DI: Interface,
    {
        // both public ways of building the address mode (models with an odd width use `new`)
        let madctl = if W % 2 == 1 { SetAddressMode::new(options.color_order, options.orientation, options.refresh_order) } else { SetAddressMode::from(options) };
        delay.delay_us(5_000);
        di.write_command(madctl)?;
        di.write_command(SetInvertMode::new(options.invert_colors))?;
        let pf = PixelFormat::with_all(BitsPerPixel::from_rgb_color::<C>());
        di.write_command(SetPixelFormat::new(pf))?;
        di.write_command(ExitSleepMode)?;
        delay.delay_us(120_000);
        di.write_command(SetDisplayOn)?;
        Ok(madctl)
    }
}
impl<const W: u16, const H: u16, C: RgbColor + 'static> MkModel for Ext<W, H, C> {
    fn mk() -> Self {
        Ext(std::marker::PhantomData)
    }
}

/// External model of a natively-BGR panel: the address mode it programs (and returns, as the
/// trait asks) has the colour order inverted relative to the options.
pub struct ExtQ;
impl Model for ExtQ {
    type ColorFormat = Rgb565;
    const FRAMEBUFFER_SIZE: (u16, u16) = (100, 60);
    fn init<DELAY, DI>(
        &mut self,
        di: &mut DI,
        delay: &mut DELAY,
        options: &ModelOptions,
    ) -> Result<SetAddressMode, ModelInitError<DI::Error>>
    where
        DELAY: DelayNs,
        DI: Interface,
    {
        let swapped = match options.color_order {
            ColorOrder::Rgb => ColorOrder::Bgr,
            ColorOrder::Bgr => ColorOrder::Rgb,
        };
        // ... and scans the other way round horizontally
        let madctl = SetAddressMode::from(options).with_color_order(swapped).with_refresh_order(options.refresh_order.flip_horizontal());
        di.write_command(madctl)?;
        di.write_command(SetInvertMode::new(options.invert_colors))?;
        let pf = PixelFormat::with_all(BitsPerPixel::from_rgb_color::<Rgb565>());
        di.write_command(SetPixelFormat::new(pf))?;
        di.write_command(ExitSleepMode)?;
        delay.delay_us(120_000);
        di.write_command(SetDisplayOn)?;
        Ok(madctl)
    }
}
impl MkModel for ExtQ {
    fn mk() -> Self {
        ExtQ
    }
}

// ------------------------------------------------------------------ transports

pub trait Transport: 'static {
    type DI: Interface<Error = Self::E> + 'static;
    type E: Classify;
    /// keeps a heap buffer alive for SPI
    type Keep: 'static;
    /// `via_from`: build the parallel bus through `From<(pins..)>` instead of `new`
    fn make(tl: &Tl, spi_buf: usize, via_from: bool) -> (Self::DI, Self::Keep);
    /// dispatch on `cfg.model` for an existing interface of this transport
    fn rebuild(di: Self::DI, keep: Self::Keep, cfg: &DispCfg, tl: &Tl) -> Built;
}

macro_rules! rebuild_u8 {
    ($T:ty) => {
        fn rebuild(di: Self::DI, keep: Self::Keep, cfg: &DispCfg, tl: &Tl) -> Built {
            use ModelId::*;
            match cfg.model {
                GC9107 => go_with::<models::GC9107, $T>(di, keep, cfg, tl),
                GC9A01 => go_with::<models::GC9A01, $T>(di, keep, cfg, tl),
                ILI9341Rgb565 => go_with::<models::ILI9341Rgb565, $T>(di, keep, cfg, tl),
                ILI9341Rgb666 => go_with::<models::ILI9341Rgb666, $T>(di, keep, cfg, tl),
                ILI9342CRgb565 => go_with::<models::ILI9342CRgb565, $T>(di, keep, cfg, tl),
                ILI9342CRgb666 => go_with::<models::ILI9342CRgb666, $T>(di, keep, cfg, tl),
                ILI9486Rgb565 => go_with::<models::ILI9486Rgb565, $T>(di, keep, cfg, tl),
                ILI9486Rgb666 => go_with::<models::ILI9486Rgb666, $T>(di, keep, cfg, tl),
                ILI9488Rgb565 => go_with::<models::ILI9488Rgb565, $T>(di, keep, cfg, tl),
                ILI9488Rgb666 => go_with::<models::ILI9488Rgb666, $T>(di, keep, cfg, tl),
                RM67162 => go_with::<models::RM67162, $T>(di, keep, cfg, tl),
                ST7735s => go_with::<models::ST7735s, $T>(di, keep, cfg, tl),
                ST7789 => go_with::<models::ST7789, $T>(di, keep, cfg, tl),
                ST7796 => go_with::<models::ST7796, $T>(di, keep, cfg, tl),
                Ext16x16 => go_with::<Ext<16, 16, Rgb565>, $T>(di, keep, cfg, tl),
                Ext64x48 => go_with::<Ext<64, 48, Rgb565>, $T>(di, keep, cfg, tl),
                Ext256x256 => go_with::<Ext<256, 256, Rgb565>, $T>(di, keep, cfg, tl),
                Ext240x320c666 => go_with::<Ext<240, 320, Rgb666>, $T>(di, keep, cfg, tl),
                ExtQuirk => go_with::<ExtQ, $T>(di, keep, cfg, tl),
                other => panic!("harness: rebuild not wired for {:?}", other),
            }
        }
    };
}
macro_rules! rebuild_u16 {
    ($T:ty) => {
        fn rebuild(di: Self::DI, keep: Self::Keep, cfg: &DispCfg, tl: &Tl) -> Built {
            use ModelId::*;
            match cfg.model {
                GC9107 => go_with::<models::GC9107, $T>(di, keep, cfg, tl),
                GC9A01 => go_with::<models::GC9A01, $T>(di, keep, cfg, tl),
                ILI9341Rgb565 => go_with::<models::ILI9341Rgb565, $T>(di, keep, cfg, tl),
                ILI9342CRgb565 => go_with::<models::ILI9342CRgb565, $T>(di, keep, cfg, tl),
                ILI9486Rgb565 => go_with::<models::ILI9486Rgb565, $T>(di, keep, cfg, tl),
                ILI9488Rgb565 => go_with::<models::ILI9488Rgb565, $T>(di, keep, cfg, tl),
                RM67162 => go_with::<models::RM67162, $T>(di, keep, cfg, tl),
                ST7735s => go_with::<models::ST7735s, $T>(di, keep, cfg, tl),
                ST7789 => go_with::<models::ST7789, $T>(di, keep, cfg, tl),
                ST7796 => go_with::<models::ST7796, $T>(di, keep, cfg, tl),
                Ext16x16 => go_with::<Ext<16, 16, Rgb565>, $T>(di, keep, cfg, tl),
                Ext64x48 => go_with::<Ext<64, 48, Rgb565>, $T>(di, keep, cfg, tl),
                Ext256x256 => go_with::<Ext<256, 256, Rgb565>, $T>(di, keep, cfg, tl),
                ExtQuirk => go_with::<ExtQ, $T>(di, keep, cfg, tl),
                other => panic!("harness: rebuild on a 16-bit bus not wired for {:?}", other),
            }
        }
    };
}

/// The SPI staging buffer lives inside an 8-byte aligned arena, at a byte offset of 0..=3 chosen
/// per configuration: user buffers are sub-slices of bigger arrays as often as not, so their
/// address is not a multiple of anything.
pub struct SpiBuf(*mut [u64]);
impl Drop for SpiBuf {
    fn drop(&mut self) {
        // SAFETY: created by Box::into_raw in spi_buffer; the interface that
        // borrowed it is dropped before this (field order in RigImpl)
        unsafe { drop(Box::from_raw(self.0)) }
    }
}
/// `len` bytes at `offset` (0..=7) inside a fresh 8-aligned arena
pub fn spi_buffer(len: usize, offset: usize) -> (&'static mut [u8], SpiBuf) {
    let offset = offset % 8;
    let words = (len + offset + 7) / 8 + 1;
    let b: Box<[u64]> = vec![0u64; words].into_boxed_slice();
    let raw = Box::into_raw(b);
    // SAFETY: the allocation lives until SpiBuf is dropped, which happens after the interface
    // (and the display holding it) is dropped; offset + len <= 8 * words
    let r: &'static mut [u8] = unsafe { std::slice::from_raw_parts_mut((raw as *mut u8).add(offset), len) };
    // sentinel pattern: stale buffer content on the wire is recognisable
    for (i, x) in r.iter_mut().enumerate() {
        *x = 0xA0 | (i as u8 & 0x0F);
    }
    (r, SpiBuf(raw))
}

pub struct TSpi;
impl Transport for TSpi {
    type DI = SpiInterface<'static, Spi, Pin>;
    type E = SpiError<Fault, Fault>;
    type Keep = SpiBuf;
    fn make(tl: &Tl, spi_buf: usize, _via_from: bool) -> (Self::DI, SpiBuf) {
        let off = tl.0.borrow().spi_buf_offset;
        let (r, keep) = spi_buffer(spi_buf, off);
        (SpiInterface::new(tl.spi(), tl.pin(Src::Dc), r), keep)
    }
    rebuild_u8!(TSpi);
}
type Bus8 = Generic8BitBus<Pin, Pin, Pin, Pin, Pin, Pin, Pin, Pin>;
type Bus16 = Generic16BitBus<Pin, Pin, Pin, Pin, Pin, Pin, Pin, Pin, Pin, Pin, Pin, Pin, Pin, Pin, Pin, Pin>;
pub fn bus8(tl: &Tl) -> Bus8 {
    let p = |i| tl.pin(Src::D(i));
    Generic8BitBus::new((p(0), p(1), p(2), p(3), p(4), p(5), p(6), p(7)))
}
pub fn bus16(tl: &Tl) -> Bus16 {
    let p = |i| tl.pin(Src::D(i));
    Generic16BitBus::new((
        p(0),
        p(1),
        p(2),
        p(3),
        p(4),
        p(5),
        p(6),
        p(7),
        p(8),
        p(9),
        p(10),
        p(11),
        p(12),
        p(13),
        p(14),
        p(15),
    ))
}
pub fn bus8_from(tl: &Tl) -> Bus8 {
    let p = |i| tl.pin(Src::D(i));
    (p(0), p(1), p(2), p(3), p(4), p(5), p(6), p(7)).into()
}
pub fn bus16_from(tl: &Tl) -> Bus16 {
    let p = |i| tl.pin(Src::D(i));
    (p(0), p(1), p(2), p(3), p(4), p(5), p(6), p(7), p(8), p(9), p(10), p(11), p(12), p(13), p(14), p(15)).into()
}
pub struct TP8;
impl Transport for TP8 {
    type DI = ParallelInterface<Bus8, Pin, Pin>;
    type E = ParallelError<Fault, Fault, Fault>;
    type Keep = ();
    fn make(tl: &Tl, _: usize, via_from: bool) -> (Self::DI, ()) {
        let bus = if via_from { bus8_from(tl) } else { bus8(tl) };
        (ParallelInterface::new(bus, tl.pin(Src::Dc), tl.pin(Src::Wr)), ())
    }
    rebuild_u8!(TP8);
}
pub struct TP16;
impl Transport for TP16 {
    type DI = ParallelInterface<Bus16, Pin, Pin>;
    type E = ParallelError<Fault, Fault, Fault>;
    type Keep = ();
    fn make(tl: &Tl, _: usize, via_from: bool) -> (Self::DI, ()) {
        let bus = if via_from { bus16_from(tl) } else { bus16(tl) };
        (ParallelInterface::new(bus, tl.pin(Src::Dc), tl.pin(Src::Wr)), ())
    }
    rebuild_u16!(TP16);
}
pub struct TL1S;
impl Transport for TL1S {
    type DI = L1<u8, KSerial>;
    type E = Fault;
    type Keep = ();
    fn make(tl: &Tl, _: usize, _: bool) -> (Self::DI, ()) {
        (L1::new(tl), ())
    }
    rebuild_u8!(TL1S);
}
pub struct TL1P8;
impl Transport for TL1P8 {
    type DI = L1<u8, KP8>;
    type E = Fault;
    type Keep = ();
    fn make(tl: &Tl, _: usize, _: bool) -> (Self::DI, ()) {
        (L1::new(tl), ())
    }
    rebuild_u8!(TL1P8);
}
pub struct TL1P16;
impl Transport for TL1P16 {
    type DI = L1<u16, KP16>;
    type E = Fault;
    type Keep = ();
    fn make(tl: &Tl, _: usize, _: bool) -> (Self::DI, ()) {
        (L1::new(tl), ())
    }
    rebuild_u16!(TL1P16);
}

pub struct TL1S16;
impl Transport for TL1S16 {
    type DI = L1<u16, KSerial>;
    type E = Fault;
    type Keep = ();
    fn make(tl: &Tl, _: usize, _: bool) -> (Self::DI, ()) {
        (L1::new(tl), ())
    }
    rebuild_u16!(TL1S16);
}

pub struct RefKeep(*mut L1<u8, KSerial>);
impl Drop for RefKeep {
    fn drop(&mut self) {
        // SAFETY: created by Box::into_raw in TL1Ref::make; the display that borrowed it
        // is dropped first (field order in RigImpl)
        unsafe { drop(Box::from_raw(self.0)) }
    }
}
pub struct TL1Ref;
impl Transport for TL1Ref {
    type DI = &'static mut L1<u8, KSerial>;
    type E = Fault;
    type Keep = RefKeep;
    fn make(tl: &Tl, _: usize, _: bool) -> (Self::DI, RefKeep) {
        let raw = Box::into_raw(Box::new(L1::<u8, KSerial>::new(tl)));
        // SAFETY: lives until RefKeep is dropped, after the display
        (unsafe { &mut *raw }, RefKeep(raw))
    }
    rebuild_u8!(TL1Ref);
}

// ------------------------------------------------------------------ Rig

pub trait Rig {
    /// Apply one operation to the real display (no budget / bus handling here).
    fn apply(&mut self, op: &Op) -> CallResult;
    fn size(&self) -> (u32, u32);
    fn bbox(&self) -> (i32, i32, u32, u32);
    fn orientation(&self) -> Ori;
    fn is_sleeping(&self) -> bool;
    /// number of colours pulled from the stream of the last set_pixels /
    /// fill_contiguous call
    fn pulled(&self) -> u64;
    /// abort (as "budget exceeded") a call that pulls more than this many
    /// colours from its stream
    fn set_pull_limit(&mut self, limit: u64);
    /// `Display::release()`, then a new display (possibly another model with the same
    /// framebuffer size) is built on the very same interface object
    fn release_rebuild(self: Box<Self>, cfg: &DispCfg, tl: &Tl) -> Built;
}

struct RigImpl<T: Transport, M: Model, RST: embedded_hal::digital::OutputPin>
where
    M::ColorFormat: InterfacePixelFormat<<T::DI as Interface>::Word>,
{
    // field order = drop order: display (borrowing the SPI buffer) first
    display: Display<T::DI, M, RST>,
    _keep: T::Keep,
    delay: Delay,
    pulled: u64,
    pull_limit: u64,
}

/// Iterator wrapper reporting a different (but valid) size_hint: a driver must not rely on
/// more than the contract (lower <= remaining <= upper).
struct Hinted<I: Iterator> {
    inner: I,
    remaining: usize,
    mode: u8,
    /// non-fused: what to yield on every poll after the stream has ended (a pixel stream ends at
    /// its first `None`; polling again must not paint anything)
    after_end: Option<I::Item>,
    ended: bool,
}
impl<I: Iterator> Iterator for Hinted<I>
where
    I::Item: Clone,
{
    type Item = I::Item;
    fn next(&mut self) -> Option<I::Item> {
        if self.ended {
            // resumes once (like `map_while` over a longer source), then stays empty
            return self.after_end.take();
        }
        let x = self.inner.next();
        if x.is_some() {
            self.remaining = self.remaining.saturating_sub(1);
        } else {
            self.ended = true;
        }
        x
    }
    fn size_hint(&self) -> (usize, Option<usize>) {
        let n = self.remaining;
        match self.mode {
            0 => (n, Some(n)),
            1 => (0, None),
            2 => (n.min(1), None),
            3 => (n.min(1), Some(n + 3)),
            4 => (0, Some(n)),
            _ => (n / 2, Some(n.saturating_mul(2) + 1)),
        }
    }
}

struct Counting<'a, I> {
    inner: I,
    n: &'a mut u64,
    limit: u64,
    /// what size_hint reports before the first item is pulled (see Stream::hint); afterwards
    /// the always-valid (0, None)
    hint: (usize, Option<usize>),
}
impl<I: Iterator> Iterator for Counting<'_, I> {
    type Item = I::Item;
    fn next(&mut self) -> Option<I::Item> {
        *self.n += 1;
        if *self.n > self.limit {
            std::panic::panic_any(BudgetExceeded { ops: *self.n });
        }
        self.inner.next()
    }
    fn nth(&mut self, n: usize) -> Option<I::Item> {
        // skipped items count as pulled; the limit guards against endless pulling
        *self.n = self.n.saturating_add(n as u64 + 1);
        if *self.n > self.limit {
            std::panic::panic_any(BudgetExceeded { ops: *self.n });
        }
        self.inner.nth(n)
    }
    fn size_hint(&self) -> (usize, Option<usize>) {
        if *self.n == 0 {
            self.hint
        } else {
            (0, None)
        }
    }
}

impl<T: Transport, M: Model, RST: embedded_hal::digital::OutputPin> Rig for RigImpl<T, M, RST>
where
    M::ColorFormat: InterfacePixelFormat<<T::DI as Interface>::Word> + TagColor,
{
    fn apply(&mut self, op: &Op) -> CallResult {
        type C<M> = <M as Model>::ColorFormat;
        let d = &mut self.display;
        let delay = &mut self.delay;
        let pulled = &mut self.pulled;
        let limit = self.pull_limit;
        let r = guarded(|| -> Result<(), T::E> {
            match op {
                Op::SetPixel { x, y, c } => d.set_pixel(*x, *y, C::<M>::from_tag(*c)),
                Op::SetPixels { sx, sy, ex, ey, colors } => {
                    *pulled = 0;
                    d.set_pixels(*sx, *sy, *ex, *ey, Counting { inner: colors.iter::<C<M>>(), n: pulled, limit, hint: colors.hint() })
                }
                Op::DrawIter { pixels } => {
                    // the size_hint the stream reports varies with its content (deterministic)
                    let mode = pixels.first().map(|p| (p.2 % 7) as u8).unwrap_or(0);
                    let it = pixels.iter().map(|(x, y, c)| Pixel(Point::new(*x, *y), C::<M>::from_tag(*c)));
                    // every other stream is not fused: polled after its end it yields a poison pixel
                    let poison = if pixels.len() % 2 == 1 { Some(Pixel(Point::new(0, 0), C::<M>::from_tag(crate::ops::POISON))) } else { None };
                    d.draw_iter(Hinted { inner: it, remaining: pixels.len(), mode, after_end: poison, ended: false })
                }
                Op::FillContiguous { rect, colors } => {
                    *pulled = 0;
                    d.fill_contiguous(&rect.eg(), Counting { inner: colors.iter::<C<M>>(), n: pulled, limit, hint: colors.hint() })
                }
                Op::FillSolid { rect, c } => d.fill_solid(&rect.eg(), C::<M>::from_tag(*c)),
                Op::Clear { c } => d.clear(C::<M>::from_tag(*c)),
                Op::SetOrientation(o) => d.set_orientation(to_orientation(*o)),
                Op::Sleep => d.sleep(delay),
                Op::Wake => d.wake(delay),
                Op::ScrollRegion(a, b) => d.set_vertical_scroll_region(*a, *b),
                Op::ScrollOffset(a) => d.set_vertical_scroll_offset(*a),
                Op::Tearing(m) => d.set_tearing_effect(match m {
                    0 => TearingEffect::Off,
                    1 => TearingEffect::Vertical,
                    _ => TearingEffect::HorizontalAndVertical,
                }),
                Op::TestImage => TestImage::<C<M>>::new().draw(d),
                Op::DcsBorrow => {
                    // SAFETY: nothing is sent; merely borrowing the interface must not change anything
                    let _ = unsafe { d.dcs() };
                    Ok(())
                }
            }
        });
        match r {
            Ok(Ok(())) => CallResult::Ok,
            Ok(Err(e)) => CallResult::Err(e.classify()),
            Err(c) => c,
        }
    }
    fn size(&self) -> (u32, u32) {
        let s = self.display.size();
        (s.width, s.height)
    }
    fn bbox(&self) -> (i32, i32, u32, u32) {
        let b = self.display.bounding_box();
        (b.top_left.x, b.top_left.y, b.size.width, b.size.height)
    }
    fn orientation(&self) -> Ori {
        from_orientation(self.display.orientation())
    }
    fn is_sleeping(&self) -> bool {
        self.display.is_sleeping()
    }
    fn pulled(&self) -> u64 {
        self.pulled
    }
    fn set_pull_limit(&mut self, limit: u64) {
        self.pull_limit = limit;
    }
    fn release_rebuild(self: Box<Self>, cfg: &DispCfg, tl: &Tl) -> Built {
        let me = *self;
        let (di, _model, rst) = me.display.release();
        tl.b().released_rst = Some(rst.is_some());
        drop(rst);
        T::rebuild(di, me._keep, cfg, tl)
    }
}

pub struct Built {
    pub init: InitResult,
    pub rig: Option<Box<dyn Rig>>,
    /// when init failed: whatever kept the interface's buffer alive. It must be freed only after
    /// the function that received the interface *as an argument* has returned (the `&'static mut`
    /// inside the interface is protected for the duration of that call)
    pub keep_alive: Option<Box<dyn std::any::Any>>,
}

fn conv_init<E: Classify>(e: InitError<E, Fault>) -> InitResult {
    match e {
        InitError::Interface(e) => InitResult::Interface(e.classify()),
        InitError::ResetPin(f) => InitResult::ResetPin(f),
        InitError::InvalidConfiguration(ConfigurationError::InvalidDisplaySize) => InitResult::InvalidSize,
        InitError::InvalidConfiguration(ConfigurationError::InvalidDisplayOffset) => InitResult::InvalidOffset,
        InitError::InvalidConfiguration(ConfigurationError::UnsupportedInterface) => InitResult::Unsupported,
        InitError::InvalidConfiguration(_) => InitResult::Unsupported,
    }
}
fn conv_init_norst<E: Classify>(e: InitError<E, core::convert::Infallible>) -> InitResult {
    match e {
        InitError::Interface(e) => InitResult::Interface(e.classify()),
        InitError::ResetPin(_) => unreachable!(),
        InitError::InvalidConfiguration(ConfigurationError::InvalidDisplaySize) => InitResult::InvalidSize,
        InitError::InvalidConfiguration(ConfigurationError::InvalidDisplayOffset) => InitResult::InvalidOffset,
        InitError::InvalidConfiguration(ConfigurationError::UnsupportedInterface) => InitResult::Unsupported,
        InitError::InvalidConfiguration(_) => InitResult::Unsupported,
    }
}

/// k-th permutation of 0..6 (Lehmer code); 0 = identity
fn permutation6(mut k: usize) -> [u8; 6] {
    let mut items: Vec<u8> = (0..6).collect();
    let mut out = [0u8; 6];
    let mut f = 120; // 5!
    for i in 0..6 {
        let idx = k / f;
        k %= f;
        out[i] = items.remove(idx);
        if i < 5 {
            f /= 5 - i;
        }
    }
    out
}

fn apply_setter<DI, M, RST>(b: Builder<DI, M, RST>, which: u8, cfg: &DispCfg) -> Builder<DI, M, RST>
where
    DI: Interface,
    M: Model,
    M::ColorFormat: InterfacePixelFormat<DI::Word>,
    RST: embedded_hal::digital::OutputPin,
{
    let o = cfg.options();
    match which {
        0 => b.color_order(o.color_order),
        1 => b.orientation(o.orientation),
        2 => b.invert_colors(o.invert_colors),
        3 => b.refresh_order(o.refresh_order),
        4 => b.display_size(cfg.w, cfg.h),
        _ => b.display_offset(cfg.ox, cfg.oy),
    }
}

fn go<M: MkModel, T: Transport>(cfg: &DispCfg, tl: &Tl) -> Built
where
    M::ColorFormat: InterfacePixelFormat<<T::DI as Interface>::Word> + TagColor,
{
    // address of the SPI staging buffer modulo 4 (part of the configuration: see to_json)
    tl.b().spi_buf_offset = cfg.spi_buf_offset();
    let (di, keep) = T::make(tl, cfg.spi_buf, cfg.order & 1 == 1);
    go_with::<M, T>(di, keep, cfg, tl)
}

/// Build and initialise a display on an interface that already exists (fresh, or released from
/// an earlier display).
fn go_with<M: MkModel, T: Transport>(di: T::DI, keep: T::Keep, cfg: &DispCfg, tl: &Tl) -> Built
where
    M::ColorFormat: InterfacePixelFormat<<T::DI as Interface>::Word> + TagColor,
{
    // the option setters in the order (and with the reset pin attached at the position) the
    // configuration asks for: a builder must not care
    let perm = permutation6((cfg.order >> 1) as usize % 720);
    let rst_pos = if cfg.rst { 6 - ((cfg.order >> 1) as usize / 720) % 7 } else { 6 };
    let mut b = Builder::new(M::mk(), di);
    if cfg.order % 5 == 2 {
        // decoys: every setter is first called with some other value; the later call must win
        b = b
            .color_order(if cfg.bgr { ColorOrder::Rgb } else { ColorOrder::Bgr })
            .orientation(to_orientation(Ori((cfg.ori.0 + 3) % 8)))
            .invert_colors(if cfg.invert { ColorInversion::Normal } else { ColorInversion::Inverted })
            .refresh_order(to_refresh((cfg.refresh + 1) % 4))
            .display_size(1, 1)
            .display_offset(3, 2);
    }
    for which in perm.iter().take(rst_pos) {
        b = apply_setter(b, *which, cfg);
    }
    let mut delay = tl.delay();
    if cfg.rst {
        let mut b = b.reset_pin(tl.pin(Src::Rst));
        for which in perm.iter().skip(rst_pos) {
            b = apply_setter(b, *which, cfg);
        }
        match guarded(|| b.init(&mut delay)) {
            Ok(Ok(display)) => Built {
                init: InitResult::Ok,
                rig: Some(Box::new(RigImpl::<T, M, Pin> { display, _keep: keep, delay, pulled: 0, pull_limit: u64::MAX })),
                keep_alive: None,
            },
            Ok(Err(e)) => {
                // the interface was consumed by the failed builder; its buffer is freed by the caller
                Built { init: conv_init(e), rig: None, keep_alive: Some(Box::new(keep)) }
            }
            Err(CallResult::Panic { msg, loc }) => {
                std::mem::forget(keep);
                Built { init: InitResult::Panic { msg, loc }, rig: None, keep_alive: None }
            }
            Err(CallResult::Budget { ops }) => {
                std::mem::forget(keep);
                Built { init: InitResult::Budget { ops }, rig: None, keep_alive: None }
            }
            Err(_) => unreachable!(),
        }
    } else {
        match guarded(|| b.init(&mut delay)) {
            Ok(Ok(display)) => Built {
                init: InitResult::Ok,
                rig: Some(Box::new(RigImpl::<T, M, NoResetPin> { display, _keep: keep, delay, pulled: 0, pull_limit: u64::MAX })),
                keep_alive: None,
            },
            Ok(Err(e)) => Built { init: conv_init_norst(e), rig: None, keep_alive: Some(Box::new(keep)) },
            Err(CallResult::Panic { msg, loc }) => {
                std::mem::forget(keep);
                Built { init: InitResult::Panic { msg, loc }, rig: None, keep_alive: None }
            }
            Err(CallResult::Budget { ops }) => {
                std::mem::forget(keep);
                Built { init: InitResult::Budget { ops }, rig: None, keep_alive: None }
            }
            Err(_) => unreachable!(),
        }
    }
}

fn go565<M: MkModel<ColorFormat = Rgb565>>(cfg: &DispCfg, tl: &Tl) -> Built {
    match cfg.tr {
        Tr::Spi => go::<M, TSpi>(cfg, tl),
        Tr::P8 => go::<M, TP8>(cfg, tl),
        Tr::P16 => go::<M, TP16>(cfg, tl),
        Tr::L1S => go::<M, TL1S>(cfg, tl),
        Tr::L1P8 => go::<M, TL1P8>(cfg, tl),
        Tr::L1P16 => go::<M, TL1P16>(cfg, tl),
        Tr::L1S16 => go::<M, TL1S16>(cfg, tl),
        Tr::L1Ref => go::<M, TL1Ref>(cfg, tl),
    }
}
fn go666<M: MkModel<ColorFormat = Rgb666>>(cfg: &DispCfg, tl: &Tl) -> Built {
    match cfg.tr {
        Tr::Spi => go::<M, TSpi>(cfg, tl),
        Tr::P8 => go::<M, TP8>(cfg, tl),
        Tr::L1S => go::<M, TL1S>(cfg, tl),
        Tr::L1P8 => go::<M, TL1P8>(cfg, tl),
        Tr::L1Ref => go::<M, TL1Ref>(cfg, tl),
        Tr::P16 | Tr::L1P16 | Tr::L1S16 => panic!("harness: an Rgb666 model on a 16-bit bus does not type-check"),
    }
}

/// Build (and initialise) the real display for a configuration.
pub fn build(cfg: &DispCfg, tl: &Tl) -> Built {
    use ModelId::*;
    match cfg.model {
        GC9107 => go565::<models::GC9107>(cfg, tl),
        GC9A01 => go565::<models::GC9A01>(cfg, tl),
        ILI9341Rgb565 => go565::<models::ILI9341Rgb565>(cfg, tl),
        ILI9341Rgb666 => go666::<models::ILI9341Rgb666>(cfg, tl),
        ILI9342CRgb565 => go565::<models::ILI9342CRgb565>(cfg, tl),
        ILI9342CRgb666 => go666::<models::ILI9342CRgb666>(cfg, tl),
        ILI9486Rgb565 => go565::<models::ILI9486Rgb565>(cfg, tl),
        ILI9486Rgb666 => go666::<models::ILI9486Rgb666>(cfg, tl),
        ILI9488Rgb565 => go565::<models::ILI9488Rgb565>(cfg, tl),
        ILI9488Rgb666 => go666::<models::ILI9488Rgb666>(cfg, tl),
        RM67162 => go565::<models::RM67162>(cfg, tl),
        ST7735s => go565::<models::ST7735s>(cfg, tl),
        ST7789 => go565::<models::ST7789>(cfg, tl),
        ST7796 => go565::<models::ST7796>(cfg, tl),
        Ext1x1 => go565::<Ext<1, 1, Rgb565>>(cfg, tl),
        Ext2x3 => go565::<Ext<2, 3, Rgb565>>(cfg, tl),
        Ext7x5 => go565::<Ext<7, 5, Rgb565>>(cfg, tl),
        Ext16x16 => go565::<Ext<16, 16, Rgb565>>(cfg, tl),
        Ext64x48 => go565::<Ext<64, 48, Rgb565>>(cfg, tl),
        Ext256x256 => go565::<Ext<256, 256, Rgb565>>(cfg, tl),
        Ext240x320c666 => go666::<Ext<240, 320, Rgb666>>(cfg, tl),
        Ext65535x1 => go565::<Ext<65535, 1, Rgb565>>(cfg, tl),
        Ext1x65535 => go565::<Ext<1, 65535, Rgb565>>(cfg, tl),
        Ext32768 => go565::<Ext<32768, 32768, Rgb565>>(cfg, tl),
        Ext65535 => go565::<Ext<65535, 65535, Rgb565>>(cfg, tl),
        Ext65535c666 => go666::<Ext<65535, 65535, Rgb666>>(cfg, tl),
        ExtQuirk => go565::<ExtQ>(cfg, tl),
        Extra(i) => extra_build(i, cfg, tl),
    }
}

/// FRAMEBUFFER_SIZE constants of the built-in models as compiled from /repo.
pub fn compiled_fb(id: ModelId) -> (u16, u16) {
    use ModelId::*;
    match id {
        GC9107 => models::GC9107::FRAMEBUFFER_SIZE,
        GC9A01 => models::GC9A01::FRAMEBUFFER_SIZE,
        ILI9341Rgb565 => models::ILI9341Rgb565::FRAMEBUFFER_SIZE,
        ILI9341Rgb666 => models::ILI9341Rgb666::FRAMEBUFFER_SIZE,
        ILI9342CRgb565 => models::ILI9342CRgb565::FRAMEBUFFER_SIZE,
        ILI9342CRgb666 => models::ILI9342CRgb666::FRAMEBUFFER_SIZE,
        ILI9486Rgb565 => models::ILI9486Rgb565::FRAMEBUFFER_SIZE,
        ILI9486Rgb666 => models::ILI9486Rgb666::FRAMEBUFFER_SIZE,
        ILI9488Rgb565 => models::ILI9488Rgb565::FRAMEBUFFER_SIZE,
        ILI9488Rgb666 => models::ILI9488Rgb666::FRAMEBUFFER_SIZE,
        RM67162 => models::RM67162::FRAMEBUFFER_SIZE,
        ST7735s => models::ST7735s::FRAMEBUFFER_SIZE,
        ST7789 => models::ST7789::FRAMEBUFFER_SIZE,
        ST7796 => models::ST7796::FRAMEBUFFER_SIZE,
        other => other.fb(),
    }
}

/// Direct `Model::init` on an L1 recorder of any kind (reaches pairings that
/// `Builder` cannot express, e.g. an Rgb666 model on a 16-bit bus).
fn init_direct_by_kind<M: MkModel>(kind: Kind, opts: &ModelOptions, tl: &Tl) -> Result<u8, InitResult> {
    fn run<M: MkModel, DI: Interface<Error = Fault>>(mut di: DI, opts: &ModelOptions, tl: &Tl) -> Result<u8, InitResult> {
        let mut delay = tl.delay();
        let mut m = M::mk();
        match m.init(&mut di, &mut delay, opts) {
            Ok(madctl) => {
                use mipidsi::dcs::DcsCommand;
                let mut b = [0u8; 16];
                let n = madctl.fill_params_buf(&mut b);
                assert_eq!(n, 1);
                Ok(b[0])
            }
            Err(ModelInitError::Interface(f)) => Err(InitResult::Interface(f.classify())),
            Err(ModelInitError::InvalidConfiguration(ConfigurationError::UnsupportedInterface)) => {
                Err(InitResult::Unsupported)
            }
            Err(ModelInitError::InvalidConfiguration(ConfigurationError::InvalidDisplaySize)) => {
                Err(InitResult::InvalidSize)
            }
            Err(ModelInitError::InvalidConfiguration(_)) => Err(InitResult::InvalidOffset),
        }
    }
    match kind {
        Kind::Serial => run::<M, _>(L1::<u8, KSerial>::new(tl), opts, tl),
        Kind::Par8 => run::<M, _>(L1::<u8, KP8>::new(tl), opts, tl),
        Kind::Par16 => run::<M, _>(L1::<u16, KP16>::new(tl), opts, tl),
    }
}
pub fn model_init_direct(id: ModelId, kind: Kind, opts: &ModelOptions, tl: &Tl) -> Result<Result<u8, InitResult>, CallResult> {
    use init_direct_by_kind as by_kind;
    use ModelId::*;
    guarded(|| match id {
        GC9107 => by_kind::<models::GC9107>(kind, opts, tl),
        GC9A01 => by_kind::<models::GC9A01>(kind, opts, tl),
        ILI9341Rgb565 => by_kind::<models::ILI9341Rgb565>(kind, opts, tl),
        ILI9341Rgb666 => by_kind::<models::ILI9341Rgb666>(kind, opts, tl),
        ILI9342CRgb565 => by_kind::<models::ILI9342CRgb565>(kind, opts, tl),
        ILI9342CRgb666 => by_kind::<models::ILI9342CRgb666>(kind, opts, tl),
        ILI9486Rgb565 => by_kind::<models::ILI9486Rgb565>(kind, opts, tl),
        ILI9486Rgb666 => by_kind::<models::ILI9486Rgb666>(kind, opts, tl),
        ILI9488Rgb565 => by_kind::<models::ILI9488Rgb565>(kind, opts, tl),
        ILI9488Rgb666 => by_kind::<models::ILI9488Rgb666>(kind, opts, tl),
        RM67162 => by_kind::<models::RM67162>(kind, opts, tl),
        ST7735s => by_kind::<models::ST7735s>(kind, opts, tl),
        ST7789 => by_kind::<models::ST7789>(kind, opts, tl),
        ST7796 => by_kind::<models::ST7796>(kind, opts, tl),
        Extra(i) => extra_init_direct(i, kind, opts, tl),
        _ => panic!("harness: model_init_direct is for built-in models"),
    })
}

pub fn kind_of(k: InterfaceKind) -> Kind {
    match k {
        InterfaceKind::Serial4Line => Kind::Serial,
        InterfaceKind::Parallel8Bit => Kind::Par8,
        _ => Kind::Par16,
    }
}
