//! A session = one real display + timeline + controller simulator + reference
//! framebuffer. `step` applies one operation to the real driver, feeds the
//! decoded bus traffic to the simulator and compares at the quiescent point.

use crate::hal::{Effect, Tl};
use crate::ops::{Op, RefFb, Stream};
use crate::panel::{Anomaly, PEv, Panel};
use crate::rig::{build, CallResult, DispCfg, InitResult, Rig};
use crate::spec::{Geo, Ori};

#[derive(Clone, Debug, PartialEq, Eq)]
pub enum Finding {
    /// panel anomaly (wire / framing / confinement)
    Panel(Anomaly),
    /// call panicked
    Panic { msg: String, loc: String },
    /// call exceeded its budget of low-level operations
    Budget { ops: u64 },
    /// call returned an error although no fault was injected
    SpuriousErr(String),
    /// controller memory differs from the reference at a framebuffer cell
    Mem { fx: u32, fy: u32, got: Option<u32>, want: Option<u32> },
    /// public API disagrees with the reference
    Api(String),
    /// trace shape of a drawing call is not (CASET RASET RAMWR pixels*)*
    Framing(String),
}

impl Finding {
    pub fn kind(&self) -> String {
        match self {
            Finding::Panel(a) => a.kind().to_string(),
            Finding::Panic { loc, .. } => format!("panic@{}", loc),
            Finding::Budget { .. } => "budget-exceeded".to_string(),
            Finding::SpuriousErr(_) => "spurious-error".to_string(),
            Finding::Mem { .. } => "memory-mismatch".to_string(),
            Finding::Api(s) => format!("api-{}", s.split(':').next().unwrap_or("")),
            Finding::Framing(s) => format!("framing-{}", s.split(':').next().unwrap_or("")),
        }
    }
    pub fn describe(&self) -> String {
        format!("{:?}", self)
    }
}

pub struct StepReport {
    pub result: CallResult,
    pub findings: Vec<Finding>,
    pub log: Vec<PEv>,
    /// low-level operations used by the call
    pub ops: u64,
    pub ops_after_fault: u64,
    /// virtual time at return
    pub t_return: u64,
    pub spi_txns: u64,
}

pub struct Session {
    pub cfg: DispCfg,
    pub tl: Tl,
    pub panel: Panel,
    pub reffb: RefFb,
    pub rig: Box<dyn Rig>,
    pub init_log: Vec<PEv>,
    pub init_findings: Vec<Finding>,
    pub t_init_return: u64,
    /// model of the sleep flag
    pub ref_sleeping: bool,
    /// accumulate every compared cell (for twin comparisons)
    pub keep_touched: bool,
    pub touched: Vec<(u32, u32)>,
    pub steps: u64,
    pub compared_cells: u64,
    /// the model natively swaps the colour order bit (external model quirk)
    pub madctl_bgr_quirk: bool,
    salt: u64,
}

pub enum Opened {
    Ready(Box<Session>),
    /// init did not produce a display
    Failed { init: InitResult, tl: Tl, panel: Panel },
}

fn drain(tl: &Tl, panel: &mut Panel) {
    for ev in tl.take_bus() {
        panel.feed(ev);
    }
}

impl Session {
    pub fn open(cfg: &DispCfg) -> Opened {
        Self::open_with(cfg, None, Effect::NoEffect, false)
    }

    /// `fail_at`: fail the k-th low-level operation of init.
    pub fn open_with(cfg: &DispCfg, fail_at: Option<u64>, effect: Effect, raw: bool) -> Opened {
        let tl = Tl::new(cfg.tr.width());
        tl.b().effect = effect;
        tl.b().raw_on = raw;
        let (fw, fh) = cfg.model.fb();
        let mut panel =
            Panel::new(fw as u32, fh as u32, cfg.tr.width(), (cfg.ox as u32, cfg.oy as u32, cfg.w as u32, cfg.h as u32));
        tl.begin_call(200_000, fail_at);
        let built = build(cfg, &tl);
        tl.end_call();
        drain(&tl, &mut panel);
        match built.rig {
            None => {
                panel.abort_partial();
                Opened::Failed { init: built.init, tl, panel }
            }
            Some(rig) => {
                panel.quiesce();
                let init_log = panel.take_log();
                let init_findings: Vec<Finding> = panel.take_anomalies().into_iter().map(Finding::Panel).collect();
                let geo = Geo { w: cfg.w as i64, h: cfg.h as i64, ox: cfg.ox as i64, oy: cfg.oy as i64, ori: cfg.ori };
                let reffb = RefFb::new(fw as u32, fh as u32, geo, cfg.model.bits());
                let t_init_return = panel.now;
                Opened::Ready(Box::new(Session {
                    cfg: cfg.clone(),
                    tl,
                    panel,
                    reffb,
                    rig,
                    init_log,
                    init_findings,
                    t_init_return,
                    ref_sleeping: false,
                    keep_touched: false,
                    touched: Vec::new(),
                    steps: 0,
                    compared_cells: 0,
                    madctl_bgr_quirk: cfg.model == crate::rig::ModelId::ExtQuirk,
                    salt: 0x5EED,
                }))
            }
        }
    }

    /// `Display::release()` followed by a new `Builder::init` with `cfg2` on the very same
    /// interface object (same transport; a model with the same framebuffer size, possibly another
    /// colour depth). Controller memory, pin levels and whatever the interface caches carry over.
    pub fn rebuild(self: Box<Session>, cfg2: &DispCfg) -> Opened {
        let me = *self;
        assert_eq!(me.cfg.tr, cfg2.tr, "harness: rebuild keeps the transport");
        assert_eq!(me.cfg.model.fb(), cfg2.model.fb(), "harness: rebuild keeps the framebuffer size");
        let Session { tl, mut panel, mut reffb, rig, keep_touched, touched, steps, compared_cells, .. } = me;
        tl.begin_call(200_000, None);
        let built = rig.release_rebuild(cfg2, &tl);
        tl.end_call();
        drain(&tl, &mut panel);
        match built.rig {
            None => {
                panel.abort_partial();
                Opened::Failed { init: built.init, tl, panel }
            }
            Some(rig) => {
                panel.quiesce();
                let init_log = panel.take_log();
                let init_findings: Vec<Finding> = panel.take_anomalies().into_iter().map(Finding::Panel).collect();
                panel.window = (cfg2.ox as u32, cfg2.oy as u32, cfg2.w as u32, cfg2.h as u32);
                reffb.geo = Geo { w: cfg2.w as i64, h: cfg2.h as i64, ox: cfg2.ox as i64, oy: cfg2.oy as i64, ori: cfg2.ori };
                reffb.mask = (1u32 << cfg2.model.bits()) - 1;
                let t_init_return = panel.now;
                Opened::Ready(Box::new(Session {
                    cfg: cfg2.clone(),
                    tl,
                    panel,
                    reffb,
                    rig,
                    init_log,
                    init_findings,
                    t_init_return,
                    ref_sleeping: false,
                    keep_touched,
                    touched,
                    steps,
                    compared_cells,
                    madctl_bgr_quirk: cfg2.model == crate::rig::ModelId::ExtQuirk,
                    salt: 0x5EED ^ steps,
                }))
            }
        }
    }

    /// Upper bound on low-level operations a terminating implementation may
    /// need for `op` (generous: x4 over the worst transport).
    pub fn budget(&self, op: &Op) -> u64 {
        let (lw, lh) = self.reffb.lsize();
        let full = (lw * lh) as u64;
        let (pixels, windows): (u64, u64) = match op {
            Op::SetPixel { .. } => (1, 1),
            Op::SetPixels { sx, sy, ex, ey, colors } => {
                let area = (*ex as u64).saturating_sub(*sx as u64).saturating_add(1)
                    * (*ey as u64).saturating_sub(*sy as u64).saturating_add(1);
                (colors.len().unwrap_or(area).max(1), 1)
            }
            Op::DrawIter { pixels } => (pixels.len() as u64, pixels.len() as u64),
            Op::FillContiguous { rect, .. } | Op::FillSolid { rect, .. } => (rect.area().min(full), 1),
            Op::Clear { .. } => (full, 1),
            Op::TestImage => (full * 3 + 4096, 64),
            _ => (0, 1),
        };
        // per word on a parallel bus: WR low, <=16 data pins, WR high; 3 words per pixel;
        // a window costs 11 words + 3 DC edges
        let per_word = 20u64;
        4 * (1024 + per_word * (3 * pixels + 16 * windows))
    }

    pub fn step(&mut self, op: &Op) -> StepReport {
        self.step_with(op, None)
    }

    pub fn step_with(&mut self, op: &Op, fail_at: Option<u64>) -> StepReport {
        self.steps += 1;
        let budget = self.budget(op);
        let ops0 = self.tl.ops();
        let txn0 = self.tl.0.borrow().spi_txns;
        self.tl.begin_call(budget, fail_at);
        // an unbounded colour stream: a terminating driver never needs more
        // colours than the requested rectangle has points
        self.rig.set_pull_limit(match op {
            Op::FillContiguous { rect, .. } => rect.area() + 65_536,
            Op::SetPixels { sx, sy, ex, ey, .. } => {
                ((*ex as u64).saturating_sub(*sx as u64) + 1) * ((*ey as u64).saturating_sub(*sy as u64) + 1) * 4 + 65_536
            }
            _ => u64::MAX,
        });
        let result = self.rig.apply(op);
        self.tl.end_call();
        let ops = self.tl.ops() - ops0;
        let ops_after_fault = self.tl.0.borrow().ops_after_fault;
        let spi_txns = self.tl.0.borrow().spi_txns - txn0;
        drain(&self.tl, &mut self.panel);
        let mut findings = Vec::new();
        match &result {
            CallResult::Ok => self.panel.quiesce(),
            CallResult::Err(e) => {
                self.panel.abort_partial();
                if fail_at.is_none() {
                    findings.push(Finding::SpuriousErr(format!("{:?}", e)));
                }
            }
            CallResult::Panic { msg, loc } => {
                self.panel.abort_partial();
                findings.push(Finding::Panic { msg: msg.clone(), loc: loc.clone() });
            }
            CallResult::Budget { ops } => {
                self.panel.abort_partial();
                findings.push(Finding::Budget { ops: *ops });
            }
        }
        let log = self.panel.take_log();
        for a in self.panel.take_anomalies() {
            findings.push(Finding::Panel(a));
        }
        let ok = result == CallResult::Ok;
        if ok {
            self.apply_ref(op);
            if let Op::SetOrientation(o) = op {
                // the controller must now hold the encoding of (configured colour order, this
                // orientation, configured refresh order)
                let want = self.want_madctl(*o);
                if self.panel.madctl != want {
                    findings.push(Finding::Api(format!(
                        "address-mode: controller holds {:#04x} after set_orientation({}), expected {:#04x}",
                        self.panel.madctl,
                        o.name(),
                        want
                    )));
                }
            }
            if op.is_draw() {
                if let Some(f) = framing(&log, op, &self.panel) {
                    findings.push(f);
                }
            }
        }
        // Compare memory where either side wrote. (After a failed call the
        // reference is unknown for the cells of that call: skip them.)
        self.salt = self.salt.wrapping_mul(6364136223846793005).wrapping_add(1);
        let mut cells = self.panel.mem.take_check_cells(self.salt);
        cells.extend(self.reffb.mem.take_check_cells(self.salt));
        if ok {
            self.compared_cells += cells.len() as u64;
            let mut reported = 0;
            for (x, y) in &cells {
                let got = self.panel.mem.get(*x, *y);
                let want = self.reffb.mem.get(*x, *y);
                if got != want {
                    if reported < 4 {
                        findings.push(Finding::Mem { fx: *x, fy: *y, got, want });
                    }
                    reported += 1;
                }
            }
            self.api_check(&mut findings);
        }
        if self.keep_touched {
            self.touched.extend(cells);
        }
        StepReport { result, findings, log, ops, ops_after_fault, t_return: self.panel.now, spi_txns }
    }

    fn api_check(&mut self, findings: &mut Vec<Finding>) {
        let (lw, lh) = self.reffb.lsize();
        let sz = self.rig.size();
        if (sz.0 as i64, sz.1 as i64) != (lw, lh) {
            findings.push(Finding::Api(format!("size: got {:?} want {:?}", sz, (lw, lh))));
        }
        let bb = self.rig.bbox();
        if (bb.0, bb.1, bb.2 as i64, bb.3 as i64) != (0, 0, lw, lh) {
            findings.push(Finding::Api(format!("bounding_box: got {:?} want (0,0,{},{})", bb, lw, lh)));
        }
        let o = self.rig.orientation();
        if o != self.reffb.geo.ori {
            findings.push(Finding::Api(format!("orientation: got {} want {}", o.name(), self.reffb.geo.ori.name())));
        }
        if self.rig.is_sleeping() != self.ref_sleeping {
            findings.push(Finding::Api(format!(
                "is_sleeping: got {} want {}",
                self.rig.is_sleeping(),
                self.ref_sleeping
            )));
        }
    }

    /// Apply the documented semantics of a successful call to the reference.
    fn apply_ref(&mut self, op: &Op) {
        match op {
            Op::SetPixel { x, y, c } => self.reffb.point(*x as i64, *y as i64, *c),
            Op::SetPixels { sx, sy, ex, ey, colors } => self.reffb.set_pixels(*sx, *sy, *ex, *ey, colors),
            Op::DrawIter { pixels } => self.reffb.draw_iter(pixels),
            Op::FillContiguous { rect, colors } => self.reffb.fill_contiguous(rect, colors),
            Op::FillSolid { rect, c } => self.reffb.fill_solid(rect, *c),
            Op::Clear { c } => self.reffb.clear(*c),
            Op::SetOrientation(o) => self.reffb.set_orientation(*o),
            Op::Sleep => self.ref_sleeping = true,
            Op::Wake => self.ref_sleeping = false,
            Op::TestImage => {
                let (lw, lh) = self.reffb.lsize();
                for o in crate::capture::test_image_ops(lw as u32, lh as u32, self.cfg.model.bits()) {
                    self.apply_ref(&o);
                }
            }
            Op::ScrollRegion(..) | Op::ScrollOffset(_) | Op::Tearing(_) | Op::DcsBorrow => {}
        }
    }

    /// address mode the controller must hold for orientation `o` on this display
    pub fn want_madctl(&self, o: Ori) -> u8 {
        // the quirky external model programs (and returns) the opposite colour order and the
        // opposite horizontal refresh order; both must survive every later orientation change
        let q = self.madctl_bgr_quirk;
        crate::spec::madctl(self.cfg.bgr != q, o, self.cfg.refresh & 1 != 0, (self.cfg.refresh & 2 != 0) != q)
    }

    pub fn current_ori(&self) -> Ori {
        self.reffb.geo.ori
    }
}

/// FRAMING monitor: a drawing call emits nothing but groups of
/// CASET(4) RASET(4) RAMWR pixels*; start <= end; end inside the framebuffer
/// as seen under the current address mode; for DrawTarget calls the burst is
/// no larger than the window.
pub fn framing(log: &[PEv], op: &Op, panel: &Panel) -> Option<Finding> {
    let (lc, lp) = panel.host_limits();
    let mut state = 0; // 0: expect CASET or end, 1: expect RASET, 2: expect RAMWR, 3: after RAMWR (burst or CASET)
    for ev in log {
        match ev {
            PEv::Cmd { op: c, params, page, .. } => {
                if *page != 0 {
                    return Some(Finding::Framing(format!("vendor-page: command {:#04x} on page {}", c, page)));
                }
                match (*c, state) {
                    (0x2A, 0) | (0x2A, 3) => {
                        if params.len() != 4 {
                            return Some(Finding::Framing(format!("caset-params: {}", params.len())));
                        }
                        let s = (params[0] as u32) << 8 | params[1] as u32;
                        let e = (params[2] as u32) << 8 | params[3] as u32;
                        if s > e {
                            return Some(Finding::Framing(format!("caset-order: start {} > end {}", s, e)));
                        }
                        if e >= lc {
                            return Some(Finding::Framing(format!("caset-range: end {} >= {} columns", e, lc)));
                        }
                        state = 1;
                    }
                    (0x2B, 1) => {
                        if params.len() != 4 {
                            return Some(Finding::Framing(format!("raset-params: {}", params.len())));
                        }
                        let s = (params[0] as u32) << 8 | params[1] as u32;
                        let e = (params[2] as u32) << 8 | params[3] as u32;
                        if s > e {
                            return Some(Finding::Framing(format!("raset-order: start {} > end {}", s, e)));
                        }
                        if e >= lp {
                            return Some(Finding::Framing(format!("raset-range: end {} >= {} pages", e, lp)));
                        }
                        state = 2;
                    }
                    (0x2C, 2) => state = 3,
                    (c, s) => {
                        return Some(Finding::Framing(format!("sequence: command {:#04x} in state {}", c, s)));
                    }
                }
            }
            PEv::Burst { pixels, area, wraps, .. } => {
                if state != 3 {
                    return Some(Finding::Framing(format!("sequence: pixel data in state {}", state)));
                }
                if op.is_draw_target() && (*pixels > *area || *wraps > 0) {
                    return Some(Finding::Framing(format!("overrun: {} pixels into a window of {}", pixels, area)));
                }
                state = 0;
            }
            PEv::Rst { .. } => return Some(Finding::Framing("sequence: reset pin toggled".to_string())),
        }
    }
    if state == 1 || state == 2 {
        return Some(Finding::Framing(format!("sequence: call ended in state {}", state)));
    }
    None
}

pub fn ramwr_count(log: &[PEv]) -> u64 {
    log.iter().filter(|e| matches!(e, PEv::Cmd { op: 0x2C, page: 0, .. })).count() as u64
}

/// Helper: a solid colour stream
pub fn solid(c: u32, n: u64) -> Stream {
    Stream::Seq { start: c, step: 0, len: Some(n) }
}
