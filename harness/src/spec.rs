//! Reference models written from the property statements and the MIPI DCS
//! tables. Nothing here uses mipidsi's `MemoryMapping`, `SetAddressMode` or
//! `ModelOptions::display_size`.

/// Orientation index 0..8: rotation = (i & 3) * 90 degrees clockwise,
/// mirrored = i >= 4.
#[derive(Clone, Copy, Debug, PartialEq, Eq, Hash)]
pub struct Ori(pub u8);
impl Ori {
    pub fn rot(self) -> u8 {
        self.0 & 3
    }
    pub fn mirrored(self) -> bool {
        self.0 & 4 != 0
    }
    pub fn name(self) -> String {
        format!("Deg{}{}", self.rot() as u32 * 90, if self.mirrored() { "+mirror" } else { "" })
    }
}

/// Geometric reference: logical cell -> framebuffer cell.
/// `w`,`h`: configured (unrotated) panel window size; `ox`,`oy`: its offset.
#[derive(Clone, Copy, Debug)]
pub struct Geo {
    pub w: i64,
    pub h: i64,
    pub ox: i64,
    pub oy: i64,
    pub ori: Ori,
}

impl Geo {
    /// logical size (what size()/bounding_box() must report)
    pub fn lsize(&self) -> (i64, i64) {
        if self.ori.rot() & 1 == 0 {
            (self.w, self.h)
        } else {
            (self.h, self.w)
        }
    }
    /// Rotate the logical image clockwise by the rotation, mirror it
    /// left-right if mirrored, shift by the offset.
    pub fn fwd(&self, x: i64, y: i64) -> (i64, i64) {
        let (w, h) = (self.w, self.h);
        let (mut px, py) = match self.ori.rot() {
            0 => (x, y),
            // logical image is h wide, w high; rotated clockwise by 90 it is w wide
            1 => (w - 1 - y, x),
            2 => (w - 1 - x, h - 1 - y),
            _ => (y, h - 1 - x),
        };
        if self.ori.mirrored() {
            px = w - 1 - px;
        }
        (px + self.ox, py + self.oy)
    }
    /// framebuffer cell -> logical cell (None when outside the panel window)
    pub fn inv(&self, fx: i64, fy: i64) -> Option<(i64, i64)> {
        let (w, h) = (self.w, self.h);
        let mut px = fx - self.ox;
        let py = fy - self.oy;
        if px < 0 || py < 0 || px >= w || py >= h {
            return None;
        }
        if self.ori.mirrored() {
            px = w - 1 - px;
        }
        Some(match self.ori.rot() {
            0 => (px, py),
            1 => (py, w - 1 - px),
            2 => (w - 1 - px, h - 1 - py),
            _ => (h - 1 - py, px),
        })
    }
    pub fn in_window(&self, fx: i64, fy: i64) -> bool {
        fx >= self.ox && fy >= self.oy && fx < self.ox + self.w && fy < self.oy + self.h
    }
}

/// MIPI DCS set_address_mode parameter, from the table:
/// B7 page (row) address order, B6 column address order, B5 page/column
/// exchange, B4 line (vertical refresh) order, B3 RGB/BGR, B2 display data
/// latch (horizontal refresh) order, B1-B0 zero.
///
/// The B7..B5 values per orientation are the well-known rotation constants
/// (0x00, 0x60, 0xC0, 0xA0) with B6 toggled for a mirrored picture.
pub fn madctl(bgr: bool, ori: Ori, bottom_to_top: bool, right_to_left: bool) -> u8 {
    let rot_bits: u8 = match ori.rot() {
        0 => 0x00,
        1 => 0x60,
        2 => 0xC0,
        _ => 0xA0,
    };
    let mut v = rot_bits;
    if ori.mirrored() {
        v ^= 0x40;
    }
    if bottom_to_top {
        v |= 0x10;
    }
    if bgr {
        v |= 0x08;
    }
    if right_to_left {
        v |= 0x04;
    }
    v
}

/// COLMOD parameter for a colour depth, DPI and DBI nibble equal.
pub fn colmod(bits_per_pixel: u8) -> u8 {
    let code = match bits_per_pixel {
        3 => 0b001,
        8 => 0b010,
        12 => 0b011,
        16 => 0b101,
        18 => 0b110,
        24 => 0b111,
        _ => 0,
    };
    code << 4 | code
}

pub mod opcode {
    pub const NOP: u8 = 0x00;
    pub const SOFT_RESET: u8 = 0x01;
    pub const ENTER_SLEEP: u8 = 0x10;
    pub const EXIT_SLEEP: u8 = 0x11;
    pub const ENTER_PARTIAL: u8 = 0x12;
    pub const ENTER_NORMAL: u8 = 0x13;
    pub const EXIT_INVERT: u8 = 0x20;
    pub const ENTER_INVERT: u8 = 0x21;
    pub const DISPLAY_OFF: u8 = 0x28;
    pub const DISPLAY_ON: u8 = 0x29;
    pub const SET_COLUMN: u8 = 0x2A;
    pub const SET_PAGE: u8 = 0x2B;
    pub const WRITE_MEMORY_START: u8 = 0x2C;
    pub const SET_SCROLL_AREA: u8 = 0x33;
    pub const TEAR_OFF: u8 = 0x34;
    pub const TEAR_ON: u8 = 0x35;
    pub const SET_ADDRESS_MODE: u8 = 0x36;
    pub const SET_SCROLL_START: u8 = 0x37;
    pub const EXIT_IDLE: u8 = 0x38;
    pub const ENTER_IDLE: u8 = 0x39;
    pub const SET_PIXEL_FORMAT: u8 = 0x3A;
}

pub fn be16(v: u16) -> [u8; 2] {
    [(v >> 8) as u8, (v & 0xFF) as u8]
}

/// RGB565 raw value -> wire words. 8-bit buses: MSB first. 16-bit: one word.
pub fn rgb565_wire8(raw: u16) -> [u16; 2] {
    [(raw >> 8) as u16, (raw & 0xFF) as u16]
}
/// RGB666 raw value (r<<12|g<<6|b) -> three bytes, six bits left-aligned.
pub fn rgb666_wire8(raw: u32) -> [u16; 3] {
    [(((raw >> 12) & 63) << 2) as u16, (((raw >> 6) & 63) << 2) as u16, ((raw & 63) << 2) as u16]
}
