//! Instrumented HAL (observation level L2), wire decoders, and the recording
//! `Interface` (observation level L1). Everything shares one `Tl` (timeline).
//!
//! The timeline is single-threaded (`Rc<RefCell<..>>`): each worker thread
//! owns its own, so monitor state is never shared between threads.

use std::cell::RefCell;
use std::rc::Rc;

use embedded_hal::delay::DelayNs;
use embedded_hal::digital::{self, OutputPin};
use embedded_hal::spi::{self, Operation, SpiDevice};
use mipidsi::interface::{Interface, InterfaceKind};

/// Who performed a low-level operation.
#[derive(Clone, Copy, Debug, PartialEq, Eq, Hash, PartialOrd, Ord)]
pub enum Src {
    Rst,
    Dc,
    Wr,
    D(u8),
    Spi,
    L1,
}

/// The one common error type for every pin, the SPI device and the L1
/// recorder. Deliberately a single type: with distinct error types per source
/// the compiler would enforce the `map_err` variant mapping.
#[derive(Clone, Copy, Debug, PartialEq, Eq)]
pub struct Fault {
    pub src: Src,
    pub op: u64,
}

impl digital::Error for Fault {
    fn kind(&self) -> digital::ErrorKind {
        digital::ErrorKind::Other
    }
}
impl spi::Error for Fault {
    /// every kind a HAL may report (a driver has no business treating some kinds as harmless)
    fn kind(&self) -> spi::ErrorKind {
        match self.op % 5 {
            0 => spi::ErrorKind::Other,
            1 => spi::ErrorKind::Overrun,
            2 => spi::ErrorKind::ModeFault,
            3 => spi::ErrorKind::FrameFormat,
            _ => spi::ErrorKind::ChipSelectFault,
        }
    }
}

/// What a failed pin write did to the physical level.
#[derive(Clone, Copy, Debug, PartialEq, Eq)]
pub enum Effect {
    NoEffect,
    TookEffect,
    Inverted,
}

/// Payload of the panic raised when a driver call exceeds its budget of
/// low-level operations ("did not terminate within a bounded number of bus
/// operations").
#[derive(Debug)]
pub struct BudgetExceeded {
    pub ops: u64,
}

#[derive(Clone, Debug, PartialEq, Eq)]
pub enum WireAnomaly {
    /// WR rising edge (or SPI write) while DC has never been driven
    UnknownDc,
    /// WR rising edge while a data pin of the bus width has never been driven
    UndrivenData(u8),
    /// more than one byte written with DC low in one SPI write
    MultiByteCmd(usize),
    /// a non-write SPI operation
    SpiOtherOp(&'static str),
    /// command word with bits above the low byte on a 16-bit bus
    CmdHighBits(u16),
    /// the pixel iterator handed to `Interface::send_pixels` reported a `size_hint` that its
    /// own length contradicts (an interface may size a transfer from it)
    SizeHint { lower: usize, upper: Option<usize>, yielded: u64 },
}

/// Decoded bus-level events, in timeline order.
#[derive(Clone, Debug, PartialEq, Eq)]
pub enum BusEv {
    Cmd(u8),
    /// data words (params or pixel words); consecutive words are coalesced
    Data(Vec<u16>),
    /// `count` repetitions of one pixel made of `n` words (L1 only)
    Run { pix: [u16; 4], n: u8, count: u32 },
    /// virtual delay in ns (coalesced)
    Delay(u64),
    Rst(bool),
    Wire(WireAnomaly),
}

/// Raw low-level log entry (only kept when `raw_on`).
#[derive(Clone, Debug, PartialEq, Eq)]
pub enum Raw {
    Pin { src: Src, level: bool, ok: bool },
    SpiTxn { writes: usize, bytes: usize, dc: Option<bool>, ok: bool },
    Delay(u32),
    L1(&'static str),
}

pub struct TlInner {
    /// number of fallible low-level operations performed so far
    pub ops: u64,
    pub fail_at: Option<u64>,
    pub effect: Effect,
    pub budget_end: u64,
    /// data words delivered to the bus in the current call / the most a terminating call may deliver
    pub call_words: u64,
    pub word_limit: u64,
    pub faulted: Option<Fault>,
    pub ops_after_fault: u64,
    pub delays_after_fault: u64,
    pub bus: Vec<BusEv>,
    pub raw_on: bool,
    pub raw: Vec<Raw>,
    // shadow physical levels
    pub dc: Option<bool>,
    pub wr: Option<bool>,
    pub rst: Option<bool>,
    pub d: [Option<bool>; 16],
    /// data bus width in bits for the parallel decoder (8 or 16)
    pub width: u8,
    // counters
    pub now_ns: u64,
    pub delay_calls: u64,
    pub spi_txns: u64,
    pub spi_writes: u64,
    pub spi_zero_writes: u64,
    pub spi_bytes: u64,
    pub pin_writes: u64,
    pub rst_writes: u64,
    /// byte offset of the SPI staging buffer inside its aligned arena
    pub spi_buf_offset: usize,
    /// reset-pin handles dropped so far (a HAL pin that is dropped stops driving its line)
    pub rst_pins_dropped: u64,
    /// did the last `Display::release()` hand a reset pin back?
    pub released_rst: Option<bool>,
    pub wr_edges: u64,
    pub l1_calls: u64,
    /// cap on the number of pixel words an L1 `send_pixels` call may deliver
    pub l1_word_cap: u64,
    /// L1 only: number of items pulled from the last `send_pixels` iterator
    pub l1_last_pixels: u64,
}

#[derive(Clone)]
pub struct Tl(pub Rc<RefCell<TlInner>>);

impl Tl {
    pub fn new(width: u8) -> Tl {
        Tl(Rc::new(RefCell::new(TlInner {
            ops: 0,
            fail_at: None,
            effect: Effect::NoEffect,
            budget_end: u64::MAX,
            call_words: 0,
            word_limit: u64::MAX,
            faulted: None,
            ops_after_fault: 0,
            delays_after_fault: 0,
            bus: Vec::new(),
            raw_on: false,
            raw: Vec::new(),
            dc: None,
            // the crate's documented precondition: WR idles high
            wr: Some(true),
            rst: None,
            d: [None; 16],
            width,
            now_ns: 0,
            delay_calls: 0,
            spi_txns: 0,
            spi_writes: 0,
            spi_zero_writes: 0,
            spi_bytes: 0,
            pin_writes: 0,
            rst_writes: 0,
            spi_buf_offset: 0,
            rst_pins_dropped: 0,
            released_rst: None,
            wr_edges: 0,
            l1_calls: 0,
            l1_word_cap: 1 << 26,
            l1_last_pixels: 0,
        })))
    }
    pub fn b(&self) -> std::cell::RefMut<'_, TlInner> {
        self.0.borrow_mut()
    }
    pub fn ops(&self) -> u64 {
        self.0.borrow().ops
    }
    /// Prepare for a driver call: clear per-call fault state, set the budget.
    pub fn begin_call(&self, budget: u64, fail_at_rel: Option<u64>) {
        let mut t = self.b();
        t.faulted = None;
        t.ops_after_fault = 0;
        t.delays_after_fault = 0;
        t.budget_end = t.ops.saturating_add(budget);
        // one SPI transaction can carry a whole buffer: bound the delivered words as well (the
        // operation budget is already dozens of times the expected traffic)
        t.call_words = 0;
        t.word_limit = budget;
        t.fail_at = fail_at_rel.map(|k| t.ops + k);
    }
    pub fn end_call(&self) {
        let mut t = self.b();
        t.budget_end = u64::MAX;
        t.word_limit = u64::MAX;
        t.fail_at = None;
    }
    pub fn take_bus(&self) -> Vec<BusEv> {
        std::mem::take(&mut self.b().bus)
    }
    pub fn pin(&self, src: Src) -> Pin {
        Pin { tl: self.clone(), src }
    }
    pub fn spi(&self) -> Spi {
        Spi { tl: self.clone() }
    }
    pub fn delay(&self) -> Delay {
        Delay { tl: self.clone() }
    }
}

impl TlInner {
    fn op(&mut self, src: Src) -> Result<(), Fault> {
        let idx = self.ops;
        if idx >= self.budget_end {
            // leave the counters consistent, then abort the driver call
            std::panic::panic_any(BudgetExceeded { ops: idx });
        }
        self.ops += 1;
        if self.faulted.is_some() {
            self.ops_after_fault += 1;
        }
        if self.fail_at == Some(idx) {
            let f = Fault { src, op: idx };
            self.faulted = Some(f);
            return Err(f);
        }
        Ok(())
    }

    fn count_words(&mut self, n: u64) {
        self.call_words += n;
        if self.call_words > self.word_limit {
            std::panic::panic_any(BudgetExceeded { ops: self.call_words });
        }
    }

    fn push_data(&mut self, w: u16) {
        self.count_words(1);
        if let Some(BusEv::Data(v)) = self.bus.last_mut() {
            v.push(w);
        } else {
            self.bus.push(BusEv::Data(vec![w]));
        }
    }

    fn push_delay(&mut self, ns: u64) {
        self.now_ns += ns;
        if let Some(BusEv::Delay(d)) = self.bus.last_mut() {
            *d += ns;
        } else {
            self.bus.push(BusEv::Delay(ns));
        }
    }

    /// WR rising edge: latch DC + data pins.
    fn sample(&mut self) {
        self.wr_edges += 1;
        let mut word = 0u16;
        for i in 0..self.width as usize {
            match self.d[i] {
                Some(true) => word |= 1 << i,
                Some(false) => {}
                None => self.bus.push(BusEv::Wire(WireAnomaly::UndrivenData(i as u8))),
            }
        }
        match self.dc {
            Some(false) => {
                if word > 0xFF {
                    self.bus.push(BusEv::Wire(WireAnomaly::CmdHighBits(word)));
                }
                self.bus.push(BusEv::Cmd(word as u8));
            }
            Some(true) => self.push_data(word),
            None => {
                self.bus.push(BusEv::Wire(WireAnomaly::UnknownDc));
                self.push_data(word);
            }
        }
    }

    fn apply_level(&mut self, src: Src, level: bool) {
        match src {
            Src::Wr => {
                let rising = self.wr == Some(false) && level;
                self.wr = Some(level);
                if rising {
                    self.sample();
                }
            }
            Src::Dc => self.dc = Some(level),
            Src::Rst => {
                self.rst = Some(level);
                self.bus.push(BusEv::Rst(level));
            }
            Src::D(i) => self.d[i as usize] = Some(level),
            _ => {}
        }
    }

    fn spi_deliver(&mut self, bytes: &[u8]) {
        if bytes.is_empty() {
            return;
        }
        self.count_words(bytes.len() as u64);
        match self.dc {
            Some(false) => {
                if bytes.len() > 1 {
                    self.bus.push(BusEv::Wire(WireAnomaly::MultiByteCmd(bytes.len())));
                }
                for b in bytes {
                    self.bus.push(BusEv::Cmd(*b));
                }
            }
            Some(true) => {
                if let Some(BusEv::Data(v)) = self.bus.last_mut() {
                    v.extend(bytes.iter().map(|b| *b as u16));
                } else {
                    self.bus.push(BusEv::Data(bytes.iter().map(|b| *b as u16).collect()));
                }
            }
            None => {
                self.bus.push(BusEv::Wire(WireAnomaly::UnknownDc));
                self.bus.push(BusEv::Data(bytes.iter().map(|b| *b as u16).collect()));
            }
        }
    }
}

// ---------------------------------------------------------------- pins

pub struct Pin {
    tl: Tl,
    src: Src,
}

impl Drop for Pin {
    fn drop(&mut self) {
        if self.src == Src::Rst {
            if let Ok(mut t) = self.tl.0.try_borrow_mut() {
                t.rst_pins_dropped += 1;
            }
        }
    }
}

impl Pin {
    fn set(&mut self, level: bool) -> Result<(), Fault> {
        let mut t = self.tl.b();
        let r = t.op(self.src);
        t.pin_writes += 1;
        if self.src == Src::Rst {
            t.rst_writes += 1;
        }
        if t.raw_on {
            let src = self.src;
            t.raw.push(Raw::Pin { src, level, ok: r.is_ok() });
        }
        let eff = match r {
            Ok(()) => Some(level),
            Err(_) => match t.effect {
                Effect::NoEffect => None,
                Effect::TookEffect => Some(level),
                Effect::Inverted => Some(!level),
            },
        };
        if let Some(l) = eff {
            t.apply_level(self.src, l);
        }
        r
    }
}

impl digital::ErrorType for Pin {
    type Error = Fault;
}
impl OutputPin for Pin {
    fn set_low(&mut self) -> Result<(), Fault> {
        self.set(false)
    }
    fn set_high(&mut self) -> Result<(), Fault> {
        self.set(true)
    }
}

// ---------------------------------------------------------------- SPI

pub struct Spi {
    tl: Tl,
}
impl spi::ErrorType for Spi {
    type Error = Fault;
}
impl SpiDevice for Spi {
    fn transaction(&mut self, operations: &mut [Operation<'_, u8>]) -> Result<(), Fault> {
        let mut t = self.tl.b();
        let r = t.op(Src::Spi);
        t.spi_txns += 1;
        let mut writes = 0usize;
        let mut nbytes = 0usize;
        let deliver_all = r.is_ok() || t.effect == Effect::TookEffect;
        let deliver_half = r.is_err() && t.effect == Effect::Inverted;
        for op in operations.iter() {
            match op {
                Operation::Write(bytes) => {
                    writes += 1;
                    nbytes += bytes.len();
                    t.spi_writes += 1;
                    if bytes.is_empty() {
                        t.spi_zero_writes += 1;
                    }
                    t.spi_bytes += bytes.len() as u64;
                    if deliver_all {
                        t.spi_deliver(bytes);
                    } else if deliver_half {
                        let h = bytes.len() / 2;
                        t.spi_deliver(&bytes[..h]);
                    }
                }
                Operation::Read(_) => t.bus.push(BusEv::Wire(WireAnomaly::SpiOtherOp("read"))),
                Operation::Transfer(_, _) => {
                    t.bus.push(BusEv::Wire(WireAnomaly::SpiOtherOp("transfer")))
                }
                Operation::TransferInPlace(_) => {
                    t.bus.push(BusEv::Wire(WireAnomaly::SpiOtherOp("transfer_in_place")))
                }
                Operation::DelayNs(ns) => t.push_delay(*ns as u64),
            }
        }
        if t.raw_on {
            let dc = t.dc;
            t.raw.push(Raw::SpiTxn { writes, bytes: nbytes, dc, ok: r.is_ok() });
        }
        r
    }
}

// ---------------------------------------------------------------- delay

pub struct Delay {
    tl: Tl,
}
impl DelayNs for Delay {
    // only delay_ns: delay_us / delay_ms defaults funnel into it
    fn delay_ns(&mut self, ns: u32) {
        let mut t = self.tl.b();
        t.delay_calls += 1;
        if t.faulted.is_some() {
            // a delay is neither a pin nor a bus operation: evidence only
            t.delays_after_fault += 1;
        }
        if t.raw_on {
            t.raw.push(Raw::Delay(ns));
        }
        t.push_delay(ns as u64);
    }
}

// ---------------------------------------------------------------- L1 recorder

pub trait WordLike: Copy + Eq + 'static {
    fn w16(self) -> u16;
    const BITS: u8;
}
impl WordLike for u8 {
    fn w16(self) -> u16 {
        self as u16
    }
    const BITS: u8 = 8;
}
impl WordLike for u16 {
    fn w16(self) -> u16 {
        self
    }
    const BITS: u8 = 16;
}

pub trait KindM: 'static {
    const KIND: InterfaceKind;
    const NAME: &'static str;
}
pub struct KSerial;
pub struct KP8;
pub struct KP16;
impl KindM for KSerial {
    const KIND: InterfaceKind = InterfaceKind::Serial4Line;
    const NAME: &'static str = "serial";
}
impl KindM for KP8 {
    const KIND: InterfaceKind = InterfaceKind::Parallel8Bit;
    const NAME: &'static str = "par8";
}
impl KindM for KP16 {
    const KIND: InterfaceKind = InterfaceKind::Parallel16Bit;
    const NAME: &'static str = "par16";
}

/// Recording `Interface` at the trait boundary.
pub struct L1<W: WordLike, K: KindM> {
    tl: Tl,
    _p: std::marker::PhantomData<(W, K)>,
}
impl<W: WordLike, K: KindM> L1<W, K> {
    pub fn new(tl: &Tl) -> Self {
        L1 { tl: tl.clone(), _p: std::marker::PhantomData }
    }
}

impl<W: WordLike, K: KindM> Interface for L1<W, K> {
    type Word = W;
    type Error = Fault;
    const KIND: InterfaceKind = K::KIND;

    fn send_command(&mut self, command: u8, args: &[u8]) -> Result<(), Fault> {
        let mut t = self.tl.b();
        t.l1_calls += 1;
        if t.raw_on {
            t.raw.push(Raw::L1("cmd"));
        }
        t.op(Src::L1)?;
        t.bus.push(BusEv::Cmd(command));
        if !args.is_empty() {
            t.bus.push(BusEv::Data(args.iter().map(|b| *b as u16).collect()));
        }
        Ok(())
    }

    fn send_pixels<const N: usize>(
        &mut self,
        pixels: impl IntoIterator<Item = [W; N]>,
    ) -> Result<(), Fault> {
        {
            let mut t = self.tl.b();
            t.l1_calls += 1;
            if t.raw_on {
                t.raw.push(Raw::L1("pixels"));
            }
            t.op(Src::L1)?;
        }
        // the iterator is user code (may call back into instrumented things):
        // do not hold the borrow while pulling from it
        let cap = {
            let t = self.tl.0.borrow();
            t.l1_word_cap.min(t.word_limit)
        };
        let mut words: Vec<u16> = Vec::new();
        let mut npix = 0u64;
        let pixels = pixels.into_iter();
        let (hint_lo, hint_hi) = pixels.size_hint();
        for px in pixels {
            npix += 1;
            for w in px {
                words.push(w.w16());
            }
            if words.len() as u64 > cap {
                std::panic::panic_any(BudgetExceeded { ops: words.len() as u64 });
            }
        }
        let mut t = self.tl.b();
        t.l1_last_pixels = npix;
        if npix < hint_lo as u64 || hint_hi.map_or(false, |h| npix > h as u64) {
            t.bus.push(BusEv::Wire(WireAnomaly::SizeHint { lower: hint_lo, upper: hint_hi, yielded: npix }));
        }
        if !words.is_empty() {
            if let Some(BusEv::Data(v)) = t.bus.last_mut() {
                v.extend(words);
            } else {
                t.bus.push(BusEv::Data(words));
            }
        }
        Ok(())
    }

    fn send_repeated_pixel<const N: usize>(&mut self, pixel: [W; N], count: u32) -> Result<(), Fault> {
        let mut t = self.tl.b();
        t.l1_calls += 1;
        if t.raw_on {
            t.raw.push(Raw::L1("run"));
        }
        t.op(Src::L1)?;
        let mut pix = [0u16; 4];
        for (i, w) in pixel.iter().enumerate().take(4) {
            pix[i] = w.w16();
        }
        if count > 0 {
            t.bus.push(BusEv::Run { pix, n: N as u8, count });
        }
        Ok(())
    }
}
