//! mv — runtime-monitoring harness for almindor/mipidsi (see /verif/DESIGN.md)
#![allow(dead_code)]

mod capture;
mod ev;
mod gen;
mod hal;
mod json;
mod mem;
mod ops;
mod panel;
mod prng;
mod props;
mod rig;
mod session;
mod spec;

use json::J;

/// reduced sizes for runs under an interpreter (Miri): set by --small
pub static SMALL: std::sync::atomic::AtomicBool = std::sync::atomic::AtomicBool::new(false);
pub fn small() -> bool {
    SMALL.load(std::sync::atomic::Ordering::Relaxed)
}

pub struct Args {
    pub prop: String,
    pub tier: String,
    pub seed: u64,
    pub out: Option<String>,
    pub case: Option<u64>,
    pub stage: Option<String>,
    pub skip_stages: Vec<String>,
    pub threads: usize,
    pub scale: f64,
}

impl Args {
    pub fn quick(&self) -> bool {
        self.tier != "thorough"
    }
    /// number of cases for a stage: quick / thorough base counts, scaled
    pub fn n(&self, quick: u64, thorough: u64) -> u64 {
        let b = if self.quick() { quick } else { thorough };
        ((b as f64) * self.scale).ceil().max(1.0) as u64
    }
    pub fn want_stage(&self, s: &str) -> bool {
        !self.skip_stages.iter().any(|x| x == s) && self.stage.as_deref().map(|x| x == s).unwrap_or(true)
    }
}

fn parse_args() -> Args {
    let mut a = Args {
        prop: String::new(),
        tier: "quick".into(),
        seed: 1,
        out: None,
        case: None,
        stage: None,
        skip_stages: Vec::new(),
        threads: std::thread::available_parallelism().map(|n| n.get()).unwrap_or(4).min(16),
        scale: 1.0,
    };
    let mut it = std::env::args().skip(1);
    while let Some(x) = it.next() {
        match x.as_str() {
            "--tier" => a.tier = it.next().expect("--tier value"),
            "--seed" => a.seed = it.next().expect("--seed value").parse().expect("seed"),
            "--out" => a.out = it.next(),
            "--case" => a.case = Some(it.next().expect("--case value").parse().expect("case")),
            "--stage" => a.stage = it.next(),
            "--skip-stage" => a.skip_stages.push(it.next().expect("--skip-stage value")),
            "--threads" => a.threads = it.next().expect("--threads value").parse().expect("threads"),
            "--scale" => a.scale = it.next().expect("--scale value").parse().expect("scale"),
            "--small" => SMALL.store(true, std::sync::atomic::Ordering::Relaxed),
            p if a.prop.is_empty() => a.prop = p.to_string(),
            other => panic!("unknown argument {}", other),
        }
    }
    a
}

fn main() {
    let args = parse_args();
    rig::install_panic_hook();
    let t0 = std::time::Instant::now();
    let r = std::panic::catch_unwind(|| props::run(&args));
    let mut out = match r {
        Ok(Some(acc)) => acc.to_json(),
        Ok(None) => {
            eprintln!("unknown property {}", args.prop);
            std::process::exit(3);
        }
        Err(_) => {
            // a panic of the harness itself (not of the driver under test) is
            // never a verdict about the driver
            let mut a = ev::Acc::new();
            a.inconclusive("harness panicked (see stderr)".to_string());
            a.to_json()
        }
    };
    out.set("property", args.prop.clone());
    out.set("tier", args.tier.clone());
    out.set("seed", args.seed);
    out.set("wall_s", t0.elapsed().as_secs_f64());
    out.set("features", J::obj().with("batch", cfg!(feature = "batch")));
    out.set("profile_overflow_checks", cfg!(debug_assertions));
    // built-in models of the tree beyond the 14 the harness was written against (build.rs)
    out.set("extra_builtin_models_driven", rig::EXTRA_NAMES.iter().map(|s| s.to_string()).collect::<Vec<String>>());
    out.set("extra_builtin_models_not_wired", rig::EXTRA_SKIPPED.iter().map(|s| s.to_string()).collect::<Vec<String>>());
    let s = out.to_string();
    match &args.out {
        Some(p) => std::fs::write(p, s).expect("write out"),
        None => println!("{}", s),
    }
}
