//! Driver operations as data (so that cases can be printed, hashed and
//! replayed), colour tagging, and the logical reference framebuffer.

use embedded_graphics_core::pixelcolor::raw::{RawU16, RawU24};
use embedded_graphics_core::pixelcolor::{Rgb565, Rgb666};
use embedded_graphics_core::prelude::*;
use embedded_graphics_core::primitives::Rectangle;

use crate::json::J;
use crate::mem::{Mem, R};
use crate::spec::{Geo, Ori};

/// Colour <-> tag. A tag is the raw value of the colour (16 or 18 bits), so a
/// stored colour names the write that produced it.
pub trait TagColor: RgbColor + 'static {
    const BITS: u8;
    fn from_tag(tag: u32) -> Self;
    fn raw(self) -> u32;
    fn mask() -> u32 {
        (1u32 << Self::BITS) - 1
    }
}
impl TagColor for Rgb565 {
    const BITS: u8 = 16;
    fn from_tag(tag: u32) -> Self {
        Rgb565::from(RawU16::new(tag as u16))
    }
    fn raw(self) -> u32 {
        RawU16::from(self).into_inner() as u32
    }
}
impl TagColor for Rgb666 {
    const BITS: u8 = 18;
    fn from_tag(tag: u32) -> Self {
        Rgb666::from(RawU24::new(tag & 0x3FFFF))
    }
    fn raw(self) -> u32 {
        RawU24::from(self).into_inner()
    }
}

/// Colour stream `k -> tag(start + k * step)`, finite or infinite.
#[derive(Clone, Debug, PartialEq, Eq, Hash)]
pub enum Stream {
    Seq { start: u32, step: u32, len: Option<u64> },
    /// k -> hash(seed, k): not periodic in k (a colour shifted by a multiple of 2^16 stream
    /// positions is visible), at the price of not being injective
    Hash { seed: u32, len: Option<u64> },
    Explicit(Vec<u32>),
}
impl Stream {
    pub fn at(&self, k: u64, mask: u32) -> Option<u32> {
        match self {
            Stream::Seq { start, step, len } => {
                if let Some(l) = len {
                    if k >= *l {
                        return None;
                    }
                }
                Some((*start as u64).wrapping_add(k.wrapping_mul(*step as u64)) as u32 & mask)
            }
            Stream::Hash { seed, len } => {
                if let Some(l) = len {
                    if k >= *l {
                        return None;
                    }
                }
                let mut z = (k ^ ((*seed as u64) << 32 | *seed as u64)).wrapping_add(0x9E37_79B9_7F4A_7C15);
                z = (z ^ (z >> 30)).wrapping_mul(0xBF58_476D_1CE4_E5B9);
                z = (z ^ (z >> 27)).wrapping_mul(0x94D0_49BB_1331_11EB);
                Some(((z ^ (z >> 31)) as u32) & mask)
            }
            Stream::Explicit(v) => v.get(k as usize).map(|t| *t & mask),
        }
    }
    pub fn len(&self) -> Option<u64> {
        match self {
            Stream::Seq { len, .. } | Stream::Hash { len, .. } => *len,
            Stream::Explicit(v) => Some(v.len() as u64),
        }
    }
    /// The `size_hint` the iterator over this stream reports: always *valid* (lower <= length
    /// <= upper), but in one of several shapes real iterators have - exact, unknown, a loose
    /// upper bound beyond 2^32 (a `u64` range mapped, `take(1 << 32)`), `usize::MAX`, and for
    /// endless streams `(usize::MAX, None)` like `repeat()`.
    pub fn hint(&self) -> (usize, Option<usize>) {
        let sel = match self {
            Stream::Seq { start, .. } => (*start >> 1) as u64,
            Stream::Hash { seed, .. } => (*seed >> 1) as u64,
            Stream::Explicit(v) => v.len() as u64,
        };
        match self.len() {
            Some(l) => {
                let l = l.min(usize::MAX as u64) as usize;
                match sel % 6 {
                    0 => (l, Some(l)),
                    1 => (0, None),
                    2 => (0, Some(l.saturating_add(1 << 32))),
                    3 => (l.min(1), Some(((1usize << 32) + (l & 3)).max(l))),
                    4 => (0, Some(usize::MAX)),
                    _ => (l / 2, Some(l.saturating_mul(2).saturating_add(1))),
                }
            }
            None => match sel % 3 {
                0 => (usize::MAX, None),
                1 => (0, None),
                _ => (1 << 33, None),
            },
        }
    }
    /// whether the iterator over this stream keeps yielding (poison) after its first `None`:
    /// a deterministic half of the finite streams
    pub fn non_fused(&self) -> bool {
        match self {
            Stream::Seq { start, len: Some(l), .. } => (*start as u64 ^ *l) % 2 == 1,
            Stream::Hash { seed, len: Some(l) } => (*seed as u64 ^ *l) % 2 == 1,
            _ => false,
        }
    }
    pub fn iter<C: TagColor>(&self) -> StreamIter<'_, C> {
        StreamIter { s: self, k: 0, ended: false, poison_left: 3, _p: std::marker::PhantomData }
    }
}
pub struct StreamIter<'a, C> {
    s: &'a Stream,
    k: u64,
    /// Rust iterators may yield again after `None`; a stream *ends* at its first `None`. After
    /// the end this iterator is deliberately not fused for a share of the streams: every later
    /// poll yields a poison colour, so a consumer that keeps polling paints something visible.
    ended: bool,
    /// the iterator resumes for a few items only (like `map_while` over a longer source), then
    /// stays empty: a consumer that polls past the end still terminates
    poison_left: u8,
    _p: std::marker::PhantomData<C>,
}

/// poison colour yielded by a non-fused stream when polled after its end
pub const POISON: u32 = 0x2A55;
impl<C: TagColor> Iterator for StreamIter<'_, C> {
    type Item = C;
    fn next(&mut self) -> Option<C> {
        match self.s.at(self.k, C::mask()) {
            Some(t) => {
                self.k += 1;
                Some(C::from_tag(t))
            }
            None => {
                if self.ended && self.s.non_fused() && self.poison_left > 0 {
                    self.poison_left -= 1;
                    return Some(C::from_tag(POISON));
                }
                self.ended = true;
                None
            }
        }
    }
    /// O(1) skipping (like slices, ranges and most adaptor chains): lets the workload use
    /// rectangles with billions of clipped points. A driver that skips by calling next()
    /// in a loop still works, just slowly; the pull counter counts skipped items too.
    fn nth(&mut self, n: usize) -> Option<C> {
        if self.ended {
            return self.next();
        }
        self.k = self.k.saturating_add(n as u64);
        self.next()
    }
}

/// A rectangle in embedded-graphics terms.
#[derive(Clone, Copy, Debug, PartialEq, Eq, Hash)]
pub struct Rect {
    pub x: i32,
    pub y: i32,
    pub w: u32,
    pub h: u32,
}
impl Rect {
    pub fn eg(&self) -> Rectangle {
        Rectangle::new(Point::new(self.x, self.y), Size::new(self.w, self.h))
    }
    pub fn area(&self) -> u64 {
        self.w as u64 * self.h as u64
    }
}

#[derive(Clone, Debug, PartialEq, Eq, Hash)]
pub enum Op {
    SetPixel { x: u16, y: u16, c: u32 },
    SetPixels { sx: u16, sy: u16, ex: u16, ey: u16, colors: Stream },
    DrawIter { pixels: Vec<(i32, i32, u32)> },
    FillContiguous { rect: Rect, colors: Stream },
    FillSolid { rect: Rect, c: u32 },
    Clear { c: u32 },
    SetOrientation(Ori),
    Sleep,
    Wake,
    ScrollRegion(u16, u16),
    ScrollOffset(u16),
    /// 0 = off, 1 = vertical, 2 = horizontal and vertical
    Tearing(u8),
    TestImage,
    /// `unsafe { display.dcs() }` without sending anything
    DcsBorrow,
}

impl Op {
    pub fn name(&self) -> &'static str {
        match self {
            Op::SetPixel { .. } => "set_pixel",
            Op::SetPixels { .. } => "set_pixels",
            Op::DrawIter { .. } => "draw_iter",
            Op::FillContiguous { .. } => "fill_contiguous",
            Op::FillSolid { .. } => "fill_solid",
            Op::Clear { .. } => "clear",
            Op::SetOrientation(_) => "set_orientation",
            Op::Sleep => "sleep",
            Op::Wake => "wake",
            Op::ScrollRegion(..) => "set_vertical_scroll_region",
            Op::ScrollOffset(_) => "set_vertical_scroll_offset",
            Op::Tearing(_) => "set_tearing_effect",
            Op::TestImage => "test_image",
            Op::DcsBorrow => "dcs_borrow",
        }
    }
    pub fn is_draw(&self) -> bool {
        matches!(
            self,
            Op::SetPixel { .. }
                | Op::SetPixels { .. }
                | Op::DrawIter { .. }
                | Op::FillContiguous { .. }
                | Op::FillSolid { .. }
                | Op::Clear { .. }
                | Op::TestImage
        )
    }
    /// Is this a DrawTarget call (its pixel bursts must not exceed the window)?
    pub fn is_draw_target(&self) -> bool {
        matches!(
            self,
            Op::DrawIter { .. } | Op::FillContiguous { .. } | Op::FillSolid { .. } | Op::Clear { .. } | Op::TestImage
        )
    }
    pub fn to_json(&self) -> J {
        let mut j = J::obj();
        j.set("op", self.name());
        match self {
            Op::SetPixel { x, y, c } => {
                j.set("x", *x).set("y", *y).set("c", *c);
            }
            Op::SetPixels { sx, sy, ex, ey, colors } => {
                j.set("win", vec![*sx, *sy, *ex, *ey]).set("colors", stream_json(colors));
            }
            Op::DrawIter { pixels } => {
                j.set("n", pixels.len());
                let shown: Vec<J> = pixels
                    .iter()
                    .take(24)
                    .map(|(x, y, c)| J::Arr(vec![(*x).into(), (*y).into(), (*c).into()]))
                    .collect();
                j.set("pixels_head", J::Arr(shown));
                if pixels.len() % 2 == 1 {
                    // the pixel iterator is not fused: see rig::Hinted
                    j.set("polled_again_after_its_end_yields", "one pixel of colour 0x2A55 at (0, 0)");
                }
            }
            Op::FillContiguous { rect, colors } => {
                j.set("rect", rect_json(rect)).set("colors", stream_json(colors));
            }
            Op::FillSolid { rect, c } => {
                j.set("rect", rect_json(rect)).set("c", *c);
            }
            Op::Clear { c } => {
                j.set("c", *c);
            }
            Op::SetOrientation(o) => {
                j.set("orientation", o.name());
            }
            Op::ScrollRegion(a, b) => {
                j.set("top", *a).set("bottom", *b);
            }
            Op::ScrollOffset(a) => {
                j.set("offset", *a);
            }
            Op::Tearing(a) => {
                j.set("mode", *a);
            }
            Op::Sleep | Op::Wake | Op::TestImage | Op::DcsBorrow => {}
        }
        j
    }
}

pub fn rect_json(r: &Rect) -> J {
    J::Arr(vec![r.x.into(), r.y.into(), r.w.into(), r.h.into()])
}
pub fn stream_json(s: &Stream) -> J {
    let j = stream_json_plain(s);
    if s.non_fused() {
        // the iterator is not fused: see StreamIter
        j.with("polled_again_after_its_end_yields", "colour 0x2A55, up to 3 times")
    } else {
        j
    }
}
fn stream_json_plain(s: &Stream) -> J {
    match s {
        Stream::Seq { start, step, len } => J::obj().with("start", *start).with("step", *step).with("len", *len),
        Stream::Hash { seed, len } => J::obj().with("hash_seed", *seed).with("len", *len),
        Stream::Explicit(v) => {
            J::obj().with("explicit_len", v.len()).with("head", v.iter().take(16).copied().collect::<Vec<u32>>())
        }
    }
}

// ------------------------------------------------------------------ RefFb

/// Reference framebuffer: expected controller memory (in framebuffer cells),
/// produced by applying the *documented* semantics of each drawing call in
/// logical coordinates and mapping through `Geo`.
pub struct RefFb {
    pub geo: Geo,
    pub mem: Mem,
    pub mask: u32,
    pub discarded: u64,
    pub stored: u64,
}

impl RefFb {
    pub fn new(fw: u32, fh: u32, geo: Geo, bits: u8) -> RefFb {
        RefFb { geo, mem: Mem::new(fw, fh), mask: (1u32 << bits) - 1, discarded: 0, stored: 0 }
    }
    pub fn lsize(&self) -> (i64, i64) {
        self.geo.lsize()
    }
    pub fn set_orientation(&mut self, o: Ori) {
        self.geo.ori = o;
    }
    fn in_bounds(&self, x: i64, y: i64) -> bool {
        let (lw, lh) = self.lsize();
        x >= 0 && y >= 0 && x < lw && y < lh
    }
    pub fn point(&mut self, x: i64, y: i64, c: u32) {
        if self.in_bounds(x, y) {
            let (fx, fy) = self.geo.fwd(x, y);
            self.mem.set(fx as u32, fy as u32, c & self.mask);
            self.stored += 1;
        } else {
            self.discarded += 1;
        }
    }
    /// visible part of a rectangle as inclusive logical bounds
    pub fn clip(&self, r: &Rect) -> Option<(i64, i64, i64, i64)> {
        let (lw, lh) = self.lsize();
        if r.w == 0 || r.h == 0 {
            return None;
        }
        let x0 = (r.x as i64).max(0);
        let y0 = (r.y as i64).max(0);
        let x1 = (r.x as i64 + r.w as i64 - 1).min(lw - 1);
        let y1 = (r.y as i64 + r.h as i64 - 1).min(lh - 1);
        if x0 > x1 || y0 > y1 {
            None
        } else {
            Some((x0, y0, x1, y1))
        }
    }
    pub fn fill_solid(&mut self, r: &Rect, c: u32) {
        if let Some((x0, y0, x1, y1)) = self.clip(r) {
            let a = self.geo.fwd(x0, y0);
            let b = self.geo.fwd(x1, y1);
            let rr = R {
                x0: a.0.min(b.0) as u32,
                y0: a.1.min(b.1) as u32,
                x1: a.0.max(b.0) as u32,
                y1: a.1.max(b.1) as u32,
            };
            self.mem.fill(rr, c & self.mask);
            self.stored += rr.area();
        }
    }
    pub fn clear(&mut self, c: u32) {
        let (lw, lh) = self.lsize();
        self.fill_solid(&Rect { x: 0, y: 0, w: lw as u32, h: lh as u32 }, c);
    }
    /// colour k on point k (row-major over the *requested* rectangle); points
    /// outside the logical area are discarded; a short stream leaves the rest.
    pub fn fill_contiguous(&mut self, r: &Rect, colors: &Stream) {
        if let Some((x0, y0, x1, y1)) = self.clip(r) {
            for y in y0..=y1 {
                for x in x0..=x1 {
                    let k = (y - r.y as i64) as u64 * r.w as u64 + (x - r.x as i64) as u64;
                    match colors.at(k, self.mask) {
                        Some(c) => self.point(x, y, c),
                        None => return, // row-major: every later k is larger
                    }
                }
            }
        }
    }
    /// low-level window write: colours row-major into the window, as documented
    /// for set_pixels (caller keeps the window in bounds and the stream <= area)
    pub fn set_pixels(&mut self, sx: u16, sy: u16, ex: u16, ey: u16, colors: &Stream) {
        let mut k = 0u64;
        for y in sy as i64..=ey as i64 {
            for x in sx as i64..=ex as i64 {
                match colors.at(k, self.mask) {
                    Some(c) => self.point(x, y, c),
                    None => return,
                }
                k += 1;
            }
        }
    }
    pub fn draw_iter(&mut self, pixels: &[(i32, i32, u32)]) {
        for (x, y, c) in pixels {
            self.point(*x as i64, *y as i64, *c);
        }
    }
}
