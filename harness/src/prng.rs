//! Deterministic PRNG (splitmix64 seeding + xoshiro256**). No external crates,
//! cheap under Miri.

pub fn splitmix64(state: &mut u64) -> u64 {
    *state = state.wrapping_add(0x9E37_79B9_7F4A_7C15);
    let mut z = *state;
    z = (z ^ (z >> 30)).wrapping_mul(0xBF58_476D_1CE4_E5B9);
    z = (z ^ (z >> 27)).wrapping_mul(0x94D0_49BB_1331_11EB);
    z ^ (z >> 31)
}

/// Mix several words into one seed (order sensitive).
pub fn mix(words: &[u64]) -> u64 {
    let mut s = 0x1234_5678_9ABC_DEF0u64;
    for w in words {
        s ^= *w;
        let _ = splitmix64(&mut s);
        s = s.rotate_left(17) ^ splitmix64(&mut s);
    }
    s
}

pub fn hash_str(s: &str) -> u64 {
    // FNV-1a 64
    let mut h = 0xcbf2_9ce4_8422_2325u64;
    for b in s.as_bytes() {
        h ^= *b as u64;
        h = h.wrapping_mul(0x0000_0100_0000_01B3);
    }
    h
}

#[derive(Clone, Debug)]
pub struct Rng {
    s: [u64; 4],
}

impl Rng {
    pub fn new(seed: u64) -> Self {
        let mut st = seed;
        let s = [
            splitmix64(&mut st),
            splitmix64(&mut st),
            splitmix64(&mut st),
            splitmix64(&mut st),
        ];
        Rng { s }
    }
    pub fn for_case(seed: u64, prop: &str, tier: &str, case: u64) -> Self {
        Rng::new(mix(&[seed, hash_str(prop), hash_str(tier), case]))
    }
    pub fn next(&mut self) -> u64 {
        let r = self.s[1].wrapping_mul(5).rotate_left(7).wrapping_mul(9);
        let t = self.s[1] << 17;
        self.s[2] ^= self.s[0];
        self.s[3] ^= self.s[1];
        self.s[1] ^= self.s[2];
        self.s[0] ^= self.s[3];
        self.s[2] ^= t;
        self.s[3] = self.s[3].rotate_left(45);
        r
    }
    /// uniform in 0..n (n > 0)
    pub fn below(&mut self, n: u64) -> u64 {
        debug_assert!(n > 0);
        ((self.next() as u128 * n as u128) >> 64) as u64
    }
    /// uniform in lo..=hi
    pub fn range(&mut self, lo: i64, hi: i64) -> i64 {
        debug_assert!(lo <= hi);
        let span = (hi as i128 - lo as i128 + 1) as u128;
        let r = ((self.next() as u128 * span) >> 64) as i128;
        (lo as i128 + r) as i64
    }
    pub fn chance(&mut self, num: u64, den: u64) -> bool {
        self.below(den) < num
    }
    pub fn pick<'a, T>(&mut self, xs: &'a [T]) -> &'a T {
        &xs[self.below(xs.len() as u64) as usize]
    }
    pub fn bool(&mut self) -> bool {
        self.next() & 1 == 1
    }
}
