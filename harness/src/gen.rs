//! Workload generators: configurations, hostile coordinates, rectangles,
//! pixel streams and programs. Deterministic from the case PRNG.

use crate::ops::{Op, Rect, Stream};
use crate::prng::Rng;
use crate::rig::{DispCfg, ModelId, Tr, ALL_TR, EXTERNAL};
use crate::spec::Ori;

#[derive(Clone, Copy, Debug, PartialEq, Eq)]
pub enum Mode {
    /// every point / rectangle inside the logical bounding box
    InBounds,
    /// out-of-bounds heavy
    Hostile,
}

pub struct CfgOpts {
    /// allow external models
    pub external: bool,
    /// allow the L1 recorder transports
    pub l1: bool,
    /// allow L2 transports
    pub l2: bool,
    /// max panel-window area for L2 transports (pixels)
    pub max_l2_area: u64,
}
impl Default for CfgOpts {
    fn default() -> Self {
        CfgOpts { external: true, l1: true, l2: true, max_l2_area: 4096 }
    }
}

pub fn transports_for(model: ModelId, o: &CfgOpts) -> Vec<Tr> {
    ALL_TR
        .iter()
        .copied()
        .filter(|t| t.type_checks(model.bits()))
        .filter(|t| !model.is_builtin() || model.supports(t.kind()))
        .filter(|t| if t.is_l2() { o.l2 } else { o.l1 })
        .collect()
}

pub fn spi_buf_len(rng: &mut Rng, bits: u8) -> usize {
    let n = if bits == 16 { 2 } else { 3 };
    match rng.below(8) {
        0 => n,
        1 => n + 1,
        2 => rng.range(n as i64, (3 * n + 2) as i64) as usize,
        3 => 16,
        4 => 64,
        5 => 512,
        6 => *rng.pick(&[4096usize, 4098, 16384, 131072, 131074, 307200]),
        _ => rng.range(n as i64, 200) as usize,
    }
}

/// (width, height, offset x, offset y) of real display modules built on the supported
/// controllers, as their data sheets / common driver tables give them (native orientation)
pub const MODULES: [(u16, u16, u16, u16); 30] = [
    (240, 240, 0, 0),
    (240, 240, 0, 80),
    (240, 280, 0, 20),
    (135, 240, 52, 40),
    (135, 240, 53, 40),
    (170, 320, 35, 0),
    (172, 320, 34, 0),
    (76, 284, 82, 18),
    (240, 320, 0, 0),
    (80, 160, 26, 1),
    (80, 160, 24, 0),
    (128, 128, 2, 1),
    (128, 128, 2, 3),
    (128, 128, 0, 32),
    (128, 160, 0, 0),
    (128, 160, 2, 1),
    (132, 162, 0, 0),
    (128, 115, 0, 0),
    (128, 115, 2, 1),
    (320, 240, 0, 0),
    (320, 480, 0, 0),
    (320, 320, 0, 80),
    (222, 480, 49, 0),
    (240, 536, 0, 0),
    (160, 128, 0, 0),
    (200, 200, 20, 20),
    (240, 198, 0, 21),
    (280, 240, 20, 0),
    (128, 64, 0, 0),
    (96, 64, 16, 0),
];

/// Pick a window (w, h, ox, oy) valid for the framebuffer.
pub fn gen_window(rng: &mut Rng, fw: u16, fh: u16, max_area: u64) -> (u16, u16, u16, u16) {
    let (fw32, fh32) = (fw as u32, fh as u32);
    let pick = rng.below(10);
    let (mut w, mut h, mut ox, mut oy);
    match pick {
        0 => {
            // full size
            w = fw32;
            h = fh32;
            ox = 0;
            oy = 0;
        }
        6 => {
            // sizes of real-world panels built on these controllers
            const COMMON: [(u32, u32); 14] = [(80, 160), (128, 128), (128, 160), (135, 240), (240, 240), (170, 320), (172, 320), (240, 280), (240, 320), (320, 240), (320, 480), (240, 135), (160, 80), (130, 130)];
            // half of the time a real module geometry with its real offset
            let fits: Vec<&(u16, u16, u16, u16)> = MODULES.iter().filter(|g| g.0 as u32 + g.2 as u32 <= fw32 && g.1 as u32 + g.3 as u32 <= fh32).collect();
            if !fits.is_empty() && rng.bool() {
                let g = **rng.pick(&fits);
                return (g.0, g.1, g.2, g.3);
            }
            let (cw, ch) = *rng.pick(&COMMON);
            w = cw.min(fw32);
            h = ch.min(fh32);
            ox = match rng.below(3) {
                0 => 0,
                1 => (fw32 - w) / 2,
                _ => fw32 - w,
            };
            oy = match rng.below(3) {
                0 => 0,
                1 => (fh32 - h) / 2,
                _ => fh32 - h,
            };
        }
        1 => {
            // 1x1 at a corner
            w = 1;
            h = 1;
            ox = if rng.bool() { 0 } else { fw32 - 1 };
            oy = if rng.bool() { 0 } else { fh32 - 1 };
        }
        2 | 3 => {
            // touching one or two framebuffer edges at the far side
            w = rng.range(1, fw32.min(40) as i64) as u32;
            h = rng.range(1, fh32.min(40) as i64) as u32;
            ox = if rng.bool() { fw32 - w } else { rng.range(0, (fw32 - w) as i64) as u32 };
            oy = if rng.bool() { fh32 - h } else { rng.range(0, (fh32 - h) as i64) as u32 };
        }
        5 if max_area > 1 << 20 => {
            // large: several hundred pixels in each direction (or everything the framebuffer has)
            w = rng.range((fw32.min(200)) as i64, fw32.min(1200) as i64) as u32;
            h = rng.range((fh32.min(200)) as i64, fh32.min(1200) as i64) as u32;
            ox = if rng.bool() { fw32 - w } else { rng.range(0, (fw32 - w) as i64) as u32 };
            oy = if rng.bool() { fh32 - h } else { rng.range(0, (fh32 - h) as i64) as u32 };
        }
        4 => {
            // thin strips
            if rng.bool() {
                w = fw32.min(rng.range(1, 300) as u32);
                h = 1.min(fh32);
            } else {
                w = 1.min(fw32);
                h = fh32.min(rng.range(1, 300) as u32);
            }
            ox = rng.range(0, (fw32 - w) as i64) as u32;
            oy = rng.range(0, (fh32 - h) as i64) as u32;
        }
        _ => {
            w = rng.range(1, fw32.min(64) as i64) as u32;
            h = rng.range(1, fh32.min(64) as i64) as u32;
            ox = rng.range(0, (fw32 - w) as i64) as u32;
            oy = rng.range(0, (fh32 - h) as i64) as u32;
        }
    }
    // respect the area cap by shrinking (keeps the far-edge anchoring)
    while (w as u64) * (h as u64) > max_area {
        if w >= h {
            let nw = (w / 2).max(1);
            if ox + w == fw32 {
                ox += w - nw;
            }
            w = nw;
        } else {
            let nh = (h / 2).max(1);
            if oy + h == fh32 {
                oy += h - nh;
            }
            h = nh;
        }
    }
    (w as u16, h as u16, ox as u16, oy as u16)
}

pub fn gen_cfg(rng: &mut Rng, o: &CfgOpts) -> DispCfg {
    loop {
        let model = if o.external && rng.chance(2, 5) { *rng.pick(&EXTERNAL) } else { *rng.pick(&crate::rig::builtin()) };
        let trs = transports_for(model, o);
        if trs.is_empty() {
            continue;
        }
        let tr = *rng.pick(&trs);
        let (fw, fh) = model.fb();
        let max_area = if tr.is_l2() { o.max_l2_area } else { u64::MAX };
        let (w, h, ox, oy) = gen_window(rng, fw, fh, max_area);
        return DispCfg {
            model,
            tr,
            spi_buf: spi_buf_len(rng, model.bits()),
            w,
            h,
            ox,
            oy,
            ori: Ori(rng.below(8) as u8),
            bgr: rng.bool(),
            refresh: rng.below(4) as u8,
            invert: rng.bool(),
            rst: rng.bool(),
            order: if rng.bool() { 0 } else { rng.below(10_080) as u16 },
        };
    }
}

/// Hostile coordinate for an axis of logical length `n`.
pub fn hostile_coord(rng: &mut Rng, n: i64) -> i32 {
    let table: [i64; 22] = [
        i32::MIN as i64,
        i32::MIN as i64 + 1,
        -65537,
        -65536,
        -32769,
        -32768,
        -1,
        0,
        1,
        n - 2,
        n - 1,
        n,
        n + 1,
        255,
        256,
        32767,
        32768,
        65534,
        65535,
        65536,
        i32::MAX as i64 - 1,
        i32::MAX as i64,
    ];
    let v = match rng.below(10) {
        0..=3 => *rng.pick(&table),
        4 => 65536 + rng.range(0, (n - 1).max(0)),       // u16 alias of an in-bounds coordinate
        5 => n - 1 + rng.range(-3, 3),                    // around the far edge
        6 => rng.range(-3, 3),                            // around the near edge
        7 => -65536 + rng.range(0, (n - 1).max(0)),       // negative alias
        _ => rng.range(0, (n - 1).max(0)),                // in bounds
    };
    v.clamp(i32::MIN as i64, i32::MAX as i64) as i32
}

pub fn inb_coord(rng: &mut Rng, n: i64) -> i32 {
    match rng.below(8) {
        0 => 0,
        1 => (n - 1) as i32,
        2 => {
            // "magic" interior values: powers of two and their neighbours, capacities
            let m = *rng.pick(&[49i64, 50, 51, 99, 100, 127, 128, 255, 256, 257, 511, 512, 1023, 1024, 4095, 4096, 32767, 32768]);
            if m < n {
                m as i32
            } else {
                rng.range(0, n - 1) as i32
            }
        }
        _ => rng.range(0, n - 1) as i32,
    }
}

/// A colour tag for solid fills: now and then one whose wire bytes have a special relation
/// (all bytes equal, first = last, zero, all ones).
pub fn solid_tag(rng: &mut Rng, tags: &mut TagGen, bits: u8) -> u32 {
    if rng.chance(1, 3) {
        if bits == 16 {
            let b = rng.next() as u32 & 0xFF;
            *rng.pick(&[0u32, 0xFFFF, b << 8 | b, 0x00FF, 0xFF00, 0x0100, 0x8000, 0x0001])
        } else {
            let c = rng.next() as u32 & 0x3F;
            let d = rng.next() as u32 & 0x3F;
            *rng.pick(&[0u32, 0x3FFFF, c << 12 | c << 6 | c, c << 12 | d << 6 | c, c << 12 | c << 6 | d, d << 12 | c << 6 | c, 0x3F000, 0x00FC0, 0x0003F])
        }
    } else {
        tags.one()
    }
}

/// A rectangle that is valid for embedded-graphics (x+w, y+h <= i32::MAX,
/// w*h < 2^32). `max_visible`: cap on the visible (clipped) area.
pub fn gen_rect(rng: &mut Rng, lw: i64, lh: i64, mode: Mode, max_visible: u64) -> Rect {
    for _ in 0..64 {
        let r = gen_rect_raw(rng, lw, lh, mode);
        // validity for e-g
        if (r.x as i64 + r.w as i64) > i32::MAX as i64 || (r.y as i64 + r.h as i64) > i32::MAX as i64 {
            continue;
        }
        if (r.w as u64) * (r.h as u64) >= (1u64 << 32) {
            continue;
        }
        // embedded-graphics sizes are added to i32 points: extents above i32::MAX are not valid
        if r.w > i32::MAX as u32 || r.h > i32::MAX as u32 {
            continue;
        }
        // visible area cap
        let x0 = (r.x as i64).max(0);
        let y0 = (r.y as i64).max(0);
        let x1 = (r.x as i64 + r.w as i64 - 1).min(lw - 1);
        let y1 = (r.y as i64 + r.h as i64 - 1).min(lh - 1);
        let vis = if x0 <= x1 && y0 <= y1 { ((x1 - x0 + 1) * (y1 - y0 + 1)) as u64 } else { 0 };
        if vis > max_visible {
            continue;
        }
        if mode == Mode::InBounds && (r.x < 0 || r.y < 0 || r.x as i64 + r.w as i64 > lw || r.y as i64 + r.h as i64 > lh) {
            continue;
        }
        return r;
    }
    Rect { x: 0, y: 0, w: 1, h: 1 }
}

fn gen_rect_raw(rng: &mut Rng, lw: i64, lh: i64, mode: Mode) -> Rect {
    if mode == Mode::Hostile && !crate::small() && rng.chance(1, 60) {
        // billions of clipped points *above* (or left of) a few visible ones: the skip count
        // itself is around 2^31 (signed / unsigned 32-bit arithmetic differs there)
        let w = rng.range(30_000, 65_535);
        let skip_rows = (rng.range(1 << 31, (1i64 << 32) - 1 - 40 * w) / w).max(1);
        let vis_rows = rng.range(1, 6.min(lh));
        let h = skip_rows + vis_rows + rng.range(0, 3);
        if w * h < (1i64 << 32) {
            let x = -rng.range(0, (w - 1).min(40_000));
            return Rect { x: x as i32, y: -(skip_rows as i32), w: w as u32, h: h as u32 };
        }
    }
    if mode == Mode::InBounds {
        let x = inb_coord(rng, lw) as i64;
        let y = inb_coord(rng, lh) as i64;
        let w = match rng.below(5) {
            0 => lw - x,
            1 => 1,
            2 => 0,
            _ => rng.range(1, (lw - x).min(48)),
        };
        let h = match rng.below(5) {
            0 => lh - y,
            1 => 1,
            2 => 0,
            _ => rng.range(1, (lh - y).min(48)),
        };
        return Rect { x: x as i32, y: y as i32, w: w as u32, h: h as u32 };
    }
    // hostile: choose how each axis relates to [0, n)
    let axis = |rng: &mut Rng, n: i64| -> (i64, i64) {
        // returns (start, len)
        match rng.below(9) {
            0 => {
                // inside
                let s = rng.range(0, n - 1);
                (s, rng.range(1, (n - s).min(40)))
            }
            1 => {
                // overlaps the near edge
                let s = -rng.range(1, 20);
                (s, -s + rng.range(1, n.min(30)))
            }
            2 => {
                // overlaps the far edge
                let s = rng.range((n - 20).max(0), n - 1);
                (s, n - s + rng.range(1, 20))
            }
            3 => {
                // encloses
                let s = -rng.range(1, 50);
                (s, -s + n + rng.range(0, 50))
            }
            4 => (-rng.range(30, 300), rng.range(1, 20)),  // disjoint before
            5 => (n + rng.range(0, 300), rng.range(1, 20)), // disjoint after
            6 => (rng.range(-2, n + 1), 0),                 // zero extent
            7 => {
                // gigantic but valid
                let s = *rng.pick(&[i32::MIN as i64, -65536, -1, 0, 65535, 65536]);
                let maxlen = (i32::MAX as i64 - s).min(u32::MAX as i64);
                (s, (*rng.pick(&[65535i64, 65536, 65537, 1 << 20, maxlen.max(1)])).min(maxlen.max(1)))
            }
            _ => (hostile_coord(rng, n) as i64, rng.range(0, 70000)),
        }
    };
    let (x, w) = axis(rng, lw);
    let (y, mut h) = axis(rng, lh);
    // keep w*h < 2^32
    if (w as u64).saturating_mul(h as u64) >= (1u64 << 32) {
        h = (((1u64 << 32) - 1) / (w as u64).max(1)) as i64;
    }
    Rect {
        x: x.clamp(i32::MIN as i64, i32::MAX as i64) as i32,
        y: y.clamp(i32::MIN as i64, i32::MAX as i64) as i32,
        w: w.clamp(0, u32::MAX as i64) as u32,
        h: h.clamp(0, u32::MAX as i64) as u32,
    }
}

/// How a rectangle relates to the logical area per axis: 'i' inside, 'n'
/// overlaps near edge, 'f' far edge, 'e' encloses (both), 'd' disjoint, 'z' zero.
pub fn clip_class(r: &Rect, lw: i64, lh: i64) -> String {
    let axis = |s: i64, len: i64, n: i64| -> char {
        if len == 0 {
            return 'z';
        }
        let e = s + len; // exclusive
        if e <= 0 || s >= n {
            'd'
        } else {
            match (s < 0, e > n) {
                (false, false) => 'i',
                (true, false) => 'n',
                (false, true) => 'f',
                (true, true) => 'e',
            }
        }
    };
    format!("{}{}", axis(r.x as i64, r.w as i64, lw), axis(r.y as i64, r.h as i64, lh))
}

/// Colours for the workload. Normally every colour of a case is distinct (a wrong cell names
/// the call it came from). One case in six draws everything from a palette of three colours
/// instead: equal neighbours, a stream that starts with the colour of the fill before it, the
/// same colour coming back - coincidences that a driver or transport which compares or caches
/// pixel values depends on.
pub struct TagGen {
    next: u32,
    palette: Option<[u32; 3]>,
    lcg: u64,
}
impl TagGen {
    pub fn new(rng: &mut Rng) -> TagGen {
        let next = (rng.next() as u32) & 0xFFFF;
        let palette = if rng.chance(1, 6) {
            let a = rng.next() as u32 & 0x3FFFF;
            Some([a, *rng.pick(&[0u32, 0xFFFF, a ^ 1, a ^ 0x100]), rng.next() as u32 & 0x3FFFF])
        } else {
            None
        };
        TagGen { next, palette, lcg: rng.next() | 1 }
    }
    pub fn is_palette(&self) -> bool {
        self.palette.is_some()
    }
    pub fn one(&mut self) -> u32 {
        if let Some(p) = self.palette {
            self.lcg = self.lcg.wrapping_mul(6364136223846793005).wrapping_add(1442695040888963407);
            // long stretches of one colour, now and then another
            return p[match (self.lcg >> 33) % 16 {
                0 => 1,
                1 => 2,
                _ => 0,
            }];
        }
        self.next = self.next.wrapping_add(1);
        self.next
    }
    pub fn run(&mut self, n: u64) -> u32 {
        if self.palette.is_some() {
            return self.one();
        }
        let s = self.next.wrapping_add(1);
        self.next = self.next.wrapping_add(n.min(1 << 20) as u32);
        s
    }
    /// colour step of a sequential stream: 1, or 0 (a constant stream) in palette mode
    pub fn step(&mut self) -> u32 {
        if self.palette.is_some() {
            0
        } else {
            1
        }
    }
}

/// Pixel stream for draw_iter with the shapes that stress the row / block
/// accumulators. `cap_row`/`cap_block`: capacities to aim the boundaries at.
pub fn gen_pixel_stream(
    rng: &mut Rng,
    lw: i64,
    lh: i64,
    mode: Mode,
    tags: &mut TagGen,
    max_pixels: usize,
    cap_row: i64,
    cap_block: i64,
) -> Vec<(i32, i32, u32)> {
    let mut v: Vec<(i32, i32, u32)> = Vec::new();
    let segments = rng.range(1, 5);
    for _ in 0..segments {
        if v.len() >= max_pixels {
            break;
        }
        let room = max_pixels - v.len();
        let seg_start = v.len();
        // the same shapes also mirrored (right to left, bottom to top) and transposed (columns):
        // decided up front so that the shape generators below stay direction-agnostic
        let reflect = rng.below(8);
        match rng.below(13) {
            12 => {
                // rows that are each of one colour (stripes, solid blocks): widths around the
                // capacities, the next row in the same columns with another (or the same) colour
                let widths = [cap_row - 1, cap_row, cap_row + 1, cap_row + 2, 2 * cap_row, 2 * cap_row + 1, 3 * cap_row, lw];
                let w = (*rng.pick(&widths)).clamp(1, lw);
                let rows = rng.range(1, 5.min(lh));
                let x0 = rng.range(0, lw - w);
                let y0 = rng.range(0, lh - rows);
                let mut c = tags.one();
                for r in 0..rows {
                    if r > 0 && rng.chance(3, 4) {
                        c = tags.one();
                    }
                    for i in 0..w {
                        if v.len() < max_pixels {
                            v.push(((x0 + i) as i32, (y0 + r) as i32, c));
                        }
                    }
                }
            }
            0 | 1 => {
                // one horizontal run, length around the capacities
                let lens = [1, 2, cap_row - 1, cap_row, cap_row + 1, 2 * cap_row - 1, 2 * cap_row, 2 * cap_row + 1, 3 * cap_row];
                let len = (*rng.pick(&lens)).clamp(1, lw.min(room as i64).max(1));
                let x0 = rng.range(0, (lw - len).max(0));
                let y = rng.range(0, lh - 1);
                for i in 0..len {
                    v.push(((x0 + i) as i32, y as i32, tags.one()));
                }
            }
            2 | 3 => {
                // stack of equal rows; total around the block capacity
                let rl = rng.range(1, cap_row.min(lw).max(1));
                let totals = [cap_block - 1, cap_block, cap_block + 1, 2 * cap_block, rl * 3];
                let total = *rng.pick(&totals);
                let rows = ((total + rl - 1) / rl).clamp(1, lh);
                let x0 = rng.range(0, lw - rl);
                let y0 = rng.range(0, lh - rows);
                let mut left = total.min(room as i64);
                for r in 0..rows {
                    for i in 0..rl {
                        if left <= 0 {
                            break;
                        }
                        v.push(((x0 + i) as i32, (y0 + r) as i32, tags.one()));
                        left -= 1;
                    }
                }
            }
            4 => {
                // rows that change start or length
                let rows = rng.range(2, 6.min(lh).max(2)).min(lh);
                let y0 = rng.range(0, lh - rows);
                for r in 0..rows {
                    let rl = rng.range(1, lw.min(12));
                    let x0 = rng.range(0, lw - rl);
                    for i in 0..rl {
                        if v.len() < max_pixels {
                            v.push(((x0 + i) as i32, (y0 + r) as i32, tags.one()));
                        }
                    }
                }
            }
            5 => {
                // right-to-left / bottom-to-top
                let len = rng.range(1, lw.min(20));
                let x0 = rng.range(0, lw - len);
                let y = rng.range(0, lh - 1);
                if rng.bool() {
                    for i in (0..len).rev() {
                        v.push(((x0 + i) as i32, y as i32, tags.one()));
                    }
                } else {
                    let len = rng.range(1, lh.min(20));
                    let y0 = rng.range(0, lh - len);
                    let x = rng.range(0, lw - 1);
                    for i in (0..len).rev() {
                        v.push((x as i32, (y0 + i) as i32, tags.one()));
                    }
                }
            }
            6 => {
                // duplicates and later overwrites
                let n = rng.range(2, 12);
                let x = rng.range(0, lw - 1);
                let y = rng.range(0, lh - 1);
                for _ in 0..n {
                    let dx = rng.range(0, 2.min(lw - 1 - x));
                    v.push(((x + dx) as i32, y as i32, tags.one()));
                }
            }
            7 => {
                // random walk
                let mut x = rng.range(0, lw - 1);
                let mut y = rng.range(0, lh - 1);
                for _ in 0..rng.range(1, 40) {
                    v.push((x as i32, y as i32, tags.one()));
                    match rng.below(4) {
                        0 => x = (x + 1).min(lw - 1),
                        1 => x = (x - 1).max(0),
                        2 => y = (y + 1).min(lh - 1),
                        _ => y = (y - 1).max(0),
                    }
                }
            }
            8 => {
                // full-width rows (row end adjacent to next row start when lw small)
                let rows = rng.range(1, 4.min(lh));
                let y0 = rng.range(0, lh - rows);
                for r in 0..rows {
                    for x in 0..lw.min(120) {
                        if v.len() < max_pixels {
                            v.push((x as i32, (y0 + r) as i32, tags.one()));
                        }
                    }
                }
            }
            9 => {
                // a run that continues exactly where the previous segment ended
                if let Some(&(px, py, _)) = v.last() {
                    let len = rng.range(1, cap_row + 2);
                    for i in 1..=len {
                        let x = px as i64 + i;
                        if x < lw && v.len() < max_pixels {
                            v.push((x as i32, py, tags.one()));
                        }
                    }
                }
            }
            10 => {
                // continuation that is 256 columns / rows away from the adjacent position
                // (an adjacency test done in a narrow integer type would merge it)
                let len = rng.range(1, 12.min(lw));
                let x0 = rng.range(0, lw - len);
                let y = rng.range(0, lh - 1);
                for i in 0..len {
                    v.push(((x0 + i) as i32, y as i32, tags.one()));
                }
                let nx = x0 + len + 256 * rng.range(1, 2);
                if nx < lw {
                    for i in 0..rng.range(1, 4) {
                        if nx + i < lw {
                            v.push(((nx + i) as i32, y as i32, tags.one()));
                        }
                    }
                }
                let ny = y + 1 + 256;
                if ny < lh {
                    for i in 0..len {
                        v.push(((x0 + i) as i32, ny as i32, tags.one()));
                    }
                }
            }
            _ => {
                // uniform scatter
                for _ in 0..rng.range(1, 30) {
                    v.push((rng.range(0, lw - 1) as i32, rng.range(0, lh - 1) as i32, tags.one()));
                }
            }
        }
        let seg = &mut v[seg_start..];
        match reflect {
            0 => seg.iter_mut().for_each(|p| p.0 = (lw - 1) as i32 - p.0),
            1 => seg.iter_mut().for_each(|p| p.1 = (lh - 1) as i32 - p.1),
            2 => seg.iter_mut().for_each(|p| *p = ((lw - 1) as i32 - p.0, (lh - 1) as i32 - p.1, p.2)),
            3 if seg.iter().all(|p| (p.0 as i64) < lh && (p.1 as i64) < lw) => seg.iter_mut().for_each(|p| *p = (p.1, p.0, p.2)),
            _ => {}
        }
        // a later segment that paints a long run over the start of this one (what was batched
        // earlier must reach the panel earlier)
        if rng.chance(1, 10) && seg_start < v.len() {
            let (x, y, _) = v[seg_start];
            let len = rng.range(cap_row, 2 * cap_row + 2).min(lw);
            let x0 = (x as i64 - rng.range(0, len - 1)).clamp(0, (lw - len).max(0));
            let c = tags.one();
            let constant = rng.bool();
            for i in 0..len {
                if v.len() < max_pixels {
                    v.push(((x0 + i) as i32, y, if constant { c } else { tags.one() }));
                }
            }
        }
    }
    v.truncate(max_pixels);
    if mode == Mode::Hostile {
        // splice out-of-bounds pixels in: replace some, insert some
        let n = v.len().max(1);
        let k = rng.range(1, (n as i64 / 3).max(2));
        for _ in 0..k {
            let pos = rng.below(v.len() as u64 + 1) as usize;
            let (x, y) = match rng.below(4) {
                0 => (hostile_coord(rng, lw), inb_coord(rng, lh)),
                1 => (inb_coord(rng, lw), hostile_coord(rng, lh)),
                2 => (hostile_coord(rng, lw), hostile_coord(rng, lh)),
                _ => {
                    // adjacent continuation past the right / bottom edge
                    if rng.bool() {
                        (lw as i32 + rng.range(0, 2) as i32, inb_coord(rng, lh))
                    } else {
                        (inb_coord(rng, lw), lh as i32 + rng.range(0, 2) as i32)
                    }
                }
            };
            let px = (x, y, tags.one());
            if rng.bool() && pos < v.len() {
                v[pos] = px;
            } else {
                v.insert(pos, px);
            }
        }
        // sometimes: a run that walks off the right edge
        if rng.chance(1, 3) {
            let y = inb_coord(rng, lh);
            let s = (lw - rng.range(1, 5)).max(0);
            for x in s..s + rng.range(2, 8) {
                v.push((x as i32, y, tags.one()));
            }
        }
    }
    v
}

pub struct ProgOpts {
    pub mode: Mode,
    pub max_calls: i64,
    /// cap on pixels per drawing call (visible area / stream length)
    pub max_px: u64,
    pub allow_clear: bool,
    pub allow_orient: bool,
    pub allow_misc: bool,
    pub allow_test_image: bool,
    pub allow_set_pixels: bool,
}

pub fn gen_draw_op(rng: &mut Rng, lw: i64, lh: i64, bits: u8, tags: &mut TagGen, o: &ProgOpts) -> Vec<Op> {
    let full = (lw * lh) as u64;
    loop {
        match rng.below(12) {
            0 if o.allow_set_pixels => {
                return vec![Op::SetPixel { x: inb_coord(rng, lw) as u16, y: inb_coord(rng, lh) as u16, c: tags.one() }];
            }
            1 if o.allow_set_pixels => {
                let r = gen_rect(rng, lw, lh, Mode::InBounds, o.max_px);
                if r.w == 0 || r.h == 0 {
                    continue;
                }
                let area = r.area();
                let n = match rng.below(4) {
                    0 => area,
                    1 => 0,
                    2 => rng.range(0, area as i64) as u64,
                    _ => area.saturating_sub(1),
                };
                return vec![Op::SetPixels {
                    sx: r.x as u16,
                    sy: r.y as u16,
                    ex: (r.x as i64 + r.w as i64 - 1) as u16,
                    ey: (r.y as i64 + r.h as i64 - 1) as u16,
                    colors: Stream::Seq { start: tags.run(n), step: tags.step(), len: Some(n) },
                }];
            }
            2 | 3 | 4 => {
                let px = gen_pixel_stream(rng, lw, lh, o.mode, tags, o.max_px.min(600) as usize, if crate::small() { 6 } else { 50 }, if crate::small() { 12 } else { 100 });
                return vec![Op::DrawIter { pixels: px }];
            }
            5 | 6 => {
                let r = gen_rect(rng, lw, lh, o.mode, o.max_px);
                let area = r.area();
                let len = match rng.below(7) {
                    0 => Some(0),
                    1 => Some(1),
                    2 => Some(area),
                    3 => Some(area.saturating_sub(1)),
                    4 => Some(area + 7),
                    5 => None,
                    _ => Some(rng.range(0, area.min(1 << 20) as i64) as u64),
                };
                // an infinite or huge stream over a rectangle whose skipped part is huge would
                // take forever even in a correct driver: bound the points before the last visible one
                // the colour stream skips in O(1), so only the visible part costs time; a stream
                // over a gigantic rectangle ends soon after the last visible point, so that a
                // driver consuming every clipped colour one by one stays affordable
                let bound = last_visible_index(&r, lw, lh).unwrap_or(0);
                if crate::small() && bound > 400 {
                    continue;
                }
                let len = if area > (1 << 24) && len.map(|l| l > bound + 8).unwrap_or(true) { Some(bound + 1 + rng.below(8)) } else { len };
                let n = len.unwrap_or(area).min(area);
                let colors = if rng.chance(1, 3) { Stream::Hash { seed: tags.one(), len } } else { Stream::Seq { start: tags.run(n), step: tags.step(), len } };
                return vec![Op::FillContiguous { rect: r, colors }];
            }
            7 | 8 => {
                let r = gen_rect(rng, lw, lh, o.mode, o.max_px);
                return vec![Op::FillSolid { rect: r, c: solid_tag(rng, tags, bits) }];
            }
            9 if o.allow_clear && full <= o.max_px => {
                return vec![Op::Clear { c: solid_tag(rng, tags, bits) }];
            }
            10 => {
                // an embedded-graphics drawable, expanded into its DrawTarget calls
                if lw > 512 || lh > 512 {
                    continue;
                }
                let reach = if o.mode == Mode::Hostile { 12 } else { 0 };
                // embedded-graphics' own arithmetic may trip overflow checks: that is not
                // the driver under test, skip such a drawable
                let Ok(ops) = crate::rig::guarded(|| crate::capture::prim_ops(lw as u32, lh as u32, bits, rng, reach)) else {
                    continue;
                };
                let ok = ops.iter().all(|op| match op {
                    Op::DrawIter { pixels } => {
                        pixels.len() as u64 <= o.max_px.max(600)
                            && (o.mode == Mode::Hostile
                                || pixels.iter().all(|(x, y, _)| *x >= 0 && *y >= 0 && (*x as i64) < lw && (*y as i64) < lh))
                    }
                    Op::FillSolid { rect, .. } | Op::FillContiguous { rect, .. } => {
                        o.mode == Mode::Hostile
                            || (rect.x >= 0
                                && rect.y >= 0
                                && rect.x as i64 + rect.w as i64 <= lw
                                && rect.y as i64 + rect.h as i64 <= lh)
                    }
                    _ => true,
                });
                if ok && !ops.is_empty() {
                    return ops;
                }
            }
            11 if o.allow_test_image && full <= o.max_px && lw <= 512 && lh <= 512 => {
                return vec![Op::TestImage];
            }
            _ => {}
        }
    }
}

/// Row-major index (in the requested rectangle) of the last visible point.
pub fn last_visible_index(r: &Rect, lw: i64, lh: i64) -> Option<u64> {
    if r.w == 0 || r.h == 0 {
        return None;
    }
    let x0 = (r.x as i64).max(0);
    let y0 = (r.y as i64).max(0);
    let x1 = (r.x as i64 + r.w as i64 - 1).min(lw - 1);
    let y1 = (r.y as i64 + r.h as i64 - 1).min(lh - 1);
    if x0 > x1 || y0 > y1 {
        return None;
    }
    Some((y1 - r.y as i64) as u64 * r.w as u64 + (x1 - r.x as i64) as u64)
}

pub fn gen_program(rng: &mut Rng, cfg: &DispCfg, o: &ProgOpts) -> Vec<Op> {
    let mut tags = TagGen::new(rng);
    let mut ori = cfg.ori;
    let mut prog: Vec<Op> = Vec::new();
    let calls = rng.range(1, o.max_calls);
    while (prog.len() as i64) < calls {
        let (lw, lh) = if ori.rot() & 1 == 0 { (cfg.w as i64, cfg.h as i64) } else { (cfg.h as i64, cfg.w as i64) };
        let r = rng.below(20);
        if r == 2 && prog.len() >= 2 {
            // repeat an earlier drawing call verbatim (identical window, e.g. right after an
            // orientation change: caches keyed on the window must not survive it)
            let j = rng.below(prog.len() as u64) as usize;
            if prog[j].is_draw() && !matches!(prog[j], Op::TestImage) {
                let (plw, plh) = (lw, lh);
                let fits = match prog[j].clone() {
                    Op::SetPixel { x, y, .. } => (x as i64) < plw && (y as i64) < plh,
                    Op::SetPixels { ex, ey, .. } => (ex as i64) < plw && (ey as i64) < plh,
                    Op::DrawIter { pixels } => o.mode == Mode::Hostile || pixels.iter().all(|(x, y, _)| (*x as i64) < plw && (*y as i64) < plh),
                    Op::FillContiguous { rect, .. } | Op::FillSolid { rect, .. } => {
                        o.mode == Mode::Hostile || (rect.x as i64 + rect.w as i64 <= plw && rect.y as i64 + rect.h as i64 <= plh)
                    }
                    _ => true,
                };
                if fits {
                    let op = prog[j].clone();
                    prog.push(op);
                    continue;
                }
            }
        }
        if r == 0 && o.allow_orient {
            ori = Ori(rng.below(8) as u8);
            prog.push(Op::SetOrientation(ori));
        } else if r == 1 && o.allow_misc {
            prog.push(match rng.below(6) {
                5 => Op::DcsBorrow,
                0 => Op::ScrollRegion(rng.range(0, 400) as u16, rng.range(0, 400) as u16),
                1 => Op::ScrollOffset(rng.next() as u16),
                2 => Op::Tearing(rng.below(3) as u8),
                3 => Op::Sleep,
                _ => Op::Wake,
            });
        } else {
            prog.extend(gen_draw_op(rng, lw, lh, cfg.model.bits(), &mut tags, o));
        }
    }
    prog
}

pub fn prog_json(prog: &[Op]) -> crate::json::J {
    crate::json::J::Arr(prog.iter().map(|o| o.to_json()).collect())
}
