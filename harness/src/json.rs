//! Minimal JSON value + writer (no external crates).

use std::collections::BTreeMap;
use std::fmt::Write;

#[derive(Clone, Debug, PartialEq)]
pub enum J {
    Null,
    Bool(bool),
    Int(i128),
    Num(f64),
    Str(String),
    Arr(Vec<J>),
    Obj(BTreeMap<String, J>),
}

impl J {
    pub fn obj() -> J {
        J::Obj(BTreeMap::new())
    }
    pub fn set(&mut self, k: &str, v: impl Into<J>) -> &mut Self {
        if let J::Obj(m) = self {
            m.insert(k.to_string(), v.into());
        }
        self
    }
    pub fn with(mut self, k: &str, v: impl Into<J>) -> Self {
        self.set(k, v);
        self
    }
    pub fn push(&mut self, v: impl Into<J>) {
        if let J::Arr(a) = self {
            a.push(v.into());
        }
    }
    pub fn to_string(&self) -> String {
        let mut s = String::new();
        self.write(&mut s);
        s
    }
    fn write(&self, out: &mut String) {
        match self {
            J::Null => out.push_str("null"),
            J::Bool(b) => out.push_str(if *b { "true" } else { "false" }),
            J::Int(i) => {
                let _ = write!(out, "{}", i);
            }
            J::Num(f) => {
                if f.is_finite() {
                    let _ = write!(out, "{}", f);
                } else {
                    out.push_str("null");
                }
            }
            J::Str(s) => write_str(out, s),
            J::Arr(a) => {
                out.push('[');
                for (i, v) in a.iter().enumerate() {
                    if i > 0 {
                        out.push(',');
                    }
                    v.write(out);
                }
                out.push(']');
            }
            J::Obj(m) => {
                out.push('{');
                for (i, (k, v)) in m.iter().enumerate() {
                    if i > 0 {
                        out.push(',');
                    }
                    write_str(out, k);
                    out.push(':');
                    v.write(out);
                }
                out.push('}');
            }
        }
    }
}

fn write_str(out: &mut String, s: &str) {
    out.push('"');
    for c in s.chars() {
        match c {
            '"' => out.push_str("\\\""),
            '\\' => out.push_str("\\\\"),
            '\n' => out.push_str("\\n"),
            '\r' => out.push_str("\\r"),
            '\t' => out.push_str("\\t"),
            c if (c as u32) < 0x20 => {
                let _ = write!(out, "\\u{:04x}", c as u32);
            }
            c => out.push(c),
        }
    }
    out.push('"');
}

impl From<bool> for J {
    fn from(v: bool) -> J {
        J::Bool(v)
    }
}
impl From<&str> for J {
    fn from(v: &str) -> J {
        J::Str(v.to_string())
    }
}
impl From<String> for J {
    fn from(v: String) -> J {
        J::Str(v)
    }
}
impl From<f64> for J {
    fn from(v: f64) -> J {
        J::Num(v)
    }
}
macro_rules! ji {
    ($($t:ty),*) => {$(impl From<$t> for J { fn from(v: $t) -> J { J::Int(v as i128) } })*};
}
ji!(u8, u16, u32, u64, usize, i8, i16, i32, i64, isize);
impl<T: Into<J>> From<Vec<T>> for J {
    fn from(v: Vec<T>) -> J {
        J::Arr(v.into_iter().map(Into::into).collect())
    }
}
impl<T: Into<J>> From<Option<T>> for J {
    fn from(v: Option<T>) -> J {
        match v {
            Some(x) => x.into(),
            None => J::Null,
        }
    }
}
impl<T: Into<J> + Clone> From<&BTreeMap<String, T>> for J {
    fn from(v: &BTreeMap<String, T>) -> J {
        J::Obj(v.iter().map(|(k, x)| (k.clone(), x.clone().into())).collect())
    }
}
