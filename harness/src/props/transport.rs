//! C05 colour encoding, C06 SPI transport, C07 parallel transport.
//! C06/C07 call the real `SpiInterface` / `ParallelInterface` directly.

use embedded_hal::digital::OutputPin;
use mipidsi::interface::{Interface, OutputBus, ParallelInterface, SpiInterface};

use crate::ev::{par_cases, Acc};
use crate::hal::{BudgetExceeded, BusEv, Effect, Fault, Src, Tl};
use crate::json::J;
use crate::ops::{Op, Stream};
use crate::prng::Rng;
use crate::rig::{bus16, bus8, guarded, CallResult, DispCfg, ModelId, Tr};
use crate::session::{Opened, Session};
use crate::spec::{self, Ori};
use crate::Args;

// ------------------------------------------------------------------ shared

#[derive(Clone, Debug, Hash)]
enum TOp {
    Cmd { cmd: u8, params: Vec<u8> },
    Pixels { n: usize, px: Vec<[u16; 4]> },
    Repeat { n: usize, px: [u16; 4], count: u32 },
}

impl TOp {
    fn json(&self) -> J {
        match self {
            TOp::Cmd { cmd, params } => J::obj().with("send_command", *cmd).with("params", params.clone()),
            TOp::Pixels { n, px } => J::obj()
                .with("send_pixels_N", *n)
                .with("count", px.len())
                .with("head", px.iter().take(6).map(|p| p[..*n].to_vec()).collect::<Vec<_>>()),
            TOp::Repeat { n, px, count } => {
                J::obj().with("send_repeated_pixel_N", *n).with("pixel", px[..*n].to_vec()).with("count", *count)
            }
        }
    }
    /// expected bus events
    fn expect(&self, out: &mut Vec<BusEv>) {
        let push_data = |out: &mut Vec<BusEv>, ws: &mut dyn Iterator<Item = u16>| {
            let v: Vec<u16> = ws.collect();
            if v.is_empty() {
                return;
            }
            if let Some(BusEv::Data(d)) = out.last_mut() {
                d.extend(v);
            } else {
                out.push(BusEv::Data(v));
            }
        };
        match self {
            TOp::Cmd { cmd, params } => {
                out.push(BusEv::Cmd(*cmd));
                push_data(out, &mut params.iter().map(|b| *b as u16));
            }
            TOp::Pixels { n, px } => push_data(out, &mut px.iter().flat_map(|p| p[..*n].iter().copied())),
            TOp::Repeat { n, px, count } => {
                let n = *n;
                let px = *px;
                push_data(out, &mut (0..*count as u64 * n as u64).map(move |i| px[(i % n as u64) as usize]))
            }
        }
    }
    fn words(&self) -> u64 {
        match self {
            TOp::Cmd { params, .. } => 1 + params.len() as u64,
            TOp::Pixels { n, px } => (*n * px.len()) as u64,
            TOp::Repeat { n, count, .. } => *n as u64 * *count as u64,
        }
    }
}

fn gen_px(rng: &mut Rng, n: usize, wordmask: u16) -> [u16; 4] {
    let mut p = [0u16; 4];
    match rng.below(6) {
        0 => {
            // all words equal (strobe-only fast path on parallel)
            let w = rng.next() as u16 & wordmask;
            for x in p.iter_mut().take(n) {
                *x = w;
            }
        }
        1 => {
            // equal except the last word
            let w = rng.next() as u16 & wordmask;
            for x in p.iter_mut().take(n) {
                *x = w;
            }
            p[n - 1] = w ^ (1 << rng.below(8));
        }
        2 => {
            // equal except the first word
            let w = rng.next() as u16 & wordmask;
            for x in p.iter_mut().take(n) {
                *x = w;
            }
            p[0] = w ^ 1;
        }
        _ => {
            for x in p.iter_mut().take(n) {
                *x = rng.next() as u16 & wordmask;
            }
        }
    }
    p
}

fn gen_top(rng: &mut Rng, wordmask: u16, cap_px: u64, max_count: u64) -> TOp {
    match rng.below(5) {
        0 | 1 => {
            let plen = match rng.below(6) {
                0 => 0,
                1 => 1,
                2 => 4,
                3 => 16,
                4 => 40,
                _ => rng.range(0, 16),
            } as usize;
            if !crate::small() && rng.chance(1, 400) {
                // a whole frame pushed as parameters of one raw command (>= 2^16 bytes)
                let n = *rng.pick(&[65_535usize, 65_536, 65_537, 70_000, 153_600]);
                let seed = rng.next();
                return TOp::Cmd { cmd: rng.next() as u8, params: (0..n).map(|i| (seed.wrapping_add(i as u64 * 31) >> 3) as u8).collect() };
            }
            if rng.chance(1, 30) {
                // a long run of identical parameter bytes (raw commands may carry whole lines)
                let b = rng.next() as u8;
                let n = rng.range(250, 600) as usize;
                return TOp::Cmd { cmd: rng.next() as u8, params: vec![b; n] };
            }
            TOp::Cmd { cmd: rng.next() as u8, params: (0..plen).map(|_| rng.next() as u8).collect() }
        }
        r => {
            let n = rng.range(1, 4) as usize;
            let cap = cap_px / n as u64; // pixels that fit the staging buffer for this N (SPI)
            let counts = [0, 1, 2, 3, cap.saturating_sub(1), cap, cap + 1, (2 * cap).saturating_sub(1), 2 * cap, 2 * cap + 1, 17, 1000];
            let mut count = *rng.pick(&counts);
            if rng.chance(1, 12) {
                count = rng.range(0, max_count as i64) as u64;
            }
            let mut count = count.min(max_count);
            // counts around 2^16 and above (16-bit truncations, block-wise loops); only for the
            // repeat call, whose cost does not depend on a materialised pixel list
            if r == 4 && !crate::small() && rng.chance(1, 40) {
                count = *rng.pick(&[65_535u64, 65_536, 65_537, 131_071, 131_072, 131_073, 153_600, 200_001]);
            }
            if r == 2 {
                TOp::Pixels { n, px: (0..count.min(5000)).map(|_| gen_px(rng, n, wordmask)).collect() }
            } else if r == 3 {
                // solid pixel stream via send_pixels
                let p = gen_px(rng, n, wordmask);
                TOp::Pixels { n, px: (0..count.min(5000)).map(|_| p).collect() }
            } else {
                TOp::Repeat { n, px: gen_px(rng, n, wordmask), count: count as u32 }
            }
        }
    }
}

/// History-hostile call sequences: the same few pixel values come back in later calls, also as
/// "aliases" (the same leading / trailing words with another pixel width), with growing and
/// shrinking repeat counts, and sometimes with 255..257 (or 65535..65537 at thorough scale)
/// small streamed bursts in between. A transport that remembers anything about an earlier call
/// (what its staging buffer holds, how much of it) has to get all of these right.
fn history_hostile(rng: &mut Rng, ops: &mut Vec<TOp>, wordmask: u16, max_n: usize, long_ok: bool) {
    if !rng.chance(1, 3) {
        return;
    }
    let base = gen_px(rng, 4, wordmask);
    let alias = |rng: &mut Rng, n: usize| -> [u16; 4] {
        let mut p = [0u16; 4];
        match rng.below(4) {
            // leading words, zero padded
            0 => {
                let k = rng.range(1, n as i64) as usize;
                p[..k].copy_from_slice(&base[..k]);
            }
            // trailing words, zero padded in front
            1 => {
                let k = rng.range(1, n as i64) as usize;
                for i in 0..k {
                    p[n - k + i] = base[i];
                }
            }
            _ => p[..n].copy_from_slice(&base[..n]),
        }
        p
    };
    for op in ops.iter_mut() {
        match op {
            TOp::Repeat { n, px, .. } if *n <= max_n && rng.chance(3, 4) => *px = alias(rng, *n),
            TOp::Pixels { n, px } if *n <= max_n && !px.is_empty() && rng.chance(1, 3) => {
                let a = alias(rng, *n);
                for q in px.iter_mut() {
                    *q = a;
                }
            }
            _ => {}
        }
    }
    // the same command with the same parameters again (also right after itself), with opcodes a
    // transport might know: address window, memory write, address mode, pixel format, reset
    for _ in 0..rng.range(0, 3) {
        let known = [0x2Au8, 0x2B, 0x2C, 0x36, 0x3A, 0x01, 0x11, 0x29, 0x33, 0x37];
        let cmd = *rng.pick(&known);
        let plen = match cmd {
            0x2A | 0x2B => 4,
            0x33 => 6,
            0x37 => 2,
            0x36 | 0x3A => 1,
            _ => 0,
        };
        let op = TOp::Cmd { cmd, params: (0..plen).map(|_| rng.next() as u8 & 0x3).collect() };
        let at = rng.below(ops.len() as u64 + 1) as usize;
        ops.insert(at, op.clone());
        let again = if rng.bool() { at + 1 } else { rng.range(at as i64 + 1, ops.len() as i64) as usize };
        ops.insert(again, op);
    }
    if long_ok && rng.chance(1, 12) {
        // two fills of the same pixel with exactly k streamed bursts in between
        let n = rng.range(1, max_n.min(4) as i64) as usize;
        let a = alias(rng, n);
        let k = *rng.pick(&[255usize, 256, 257, 511, 512]);
        let c1 = rng.range(1, 40) as u32;
        let c2 = rng.range(1, 40) as u32;
        ops.push(TOp::Repeat { n, px: a, count: c1 });
        for i in 0..k {
            let m = rng.range(1, max_n.min(4) as i64) as usize;
            ops.push(TOp::Pixels { n: m, px: vec![gen_px(rng, m, wordmask); 1 + i % 2] });
        }
        ops.push(TOp::Repeat { n, px: a, count: c2 });
    }
}

/// A pixel stream *ends* at its first `None`. Every other stream handed to `send_pixels` is not
/// fused: polled again after its end it yields one more (poison) pixel, like `map_while` or
/// `from_fn` over a longer source would. A transport that polls past the end sends words the
/// expected byte stream does not contain.
struct Resuming<I: Iterator> {
    inner: I,
    after_end: Option<I::Item>,
    ended: bool,
}
impl<I: Iterator> Iterator for Resuming<I> {
    type Item = I::Item;
    fn next(&mut self) -> Option<I::Item> {
        if self.ended {
            return self.after_end.take();
        }
        let x = self.inner.next();
        self.ended = x.is_none();
        x
    }
}
fn resuming<I: Iterator>(inner: I, len: usize, poison: I::Item) -> Resuming<I> {
    Resuming { inner, after_end: if len % 2 == 1 { Some(poison) } else { None }, ended: false }
}

fn apply_u8<DI: Interface<Word = u8>>(di: &mut DI, op: &TOp) -> Result<(), DI::Error> {
    fn arr<const N: usize>(p: &[u16; 4]) -> [u8; N] {
        let mut a = [0u8; N];
        for i in 0..N {
            a[i] = p[i] as u8;
        }
        a
    }
    match op {
        TOp::Cmd { cmd, params } => di.send_command(*cmd, params),
        TOp::Pixels { n, px } => match n {
            1 => di.send_pixels(resuming(px.iter().map(arr::<1>), px.len(), [0x5A; 1])),
            2 => di.send_pixels(resuming(px.iter().map(arr::<2>), px.len(), [0x5A; 2])),
            3 => di.send_pixels(resuming(px.iter().map(arr::<3>), px.len(), [0x5A; 3])),
            _ => di.send_pixels(resuming(px.iter().map(arr::<4>), px.len(), [0x5A; 4])),
        },
        TOp::Repeat { n, px, count } => match n {
            1 => di.send_repeated_pixel(arr::<1>(px), *count),
            2 => di.send_repeated_pixel(arr::<2>(px), *count),
            3 => di.send_repeated_pixel(arr::<3>(px), *count),
            _ => di.send_repeated_pixel(arr::<4>(px), *count),
        },
    }
}
fn apply_u16<DI: Interface<Word = u16>>(di: &mut DI, op: &TOp) -> Result<(), DI::Error> {
    fn arr<const N: usize>(p: &[u16; 4]) -> [u16; N] {
        let mut a = [0u16; N];
        a.copy_from_slice(&p[..N]);
        a
    }
    match op {
        TOp::Cmd { cmd, params } => di.send_command(*cmd, params),
        TOp::Pixels { n, px } => match n {
            1 => di.send_pixels(resuming(px.iter().map(arr::<1>), px.len(), [0x5A; 1])),
            2 => di.send_pixels(resuming(px.iter().map(arr::<2>), px.len(), [0x5A; 2])),
            3 => di.send_pixels(resuming(px.iter().map(arr::<3>), px.len(), [0x5A; 3])),
            _ => di.send_pixels(resuming(px.iter().map(arr::<4>), px.len(), [0x5A; 4])),
        },
        TOp::Repeat { n, px, count } => match n {
            1 => di.send_repeated_pixel(arr::<1>(px), *count),
            2 => di.send_repeated_pixel(arr::<2>(px), *count),
            3 => di.send_repeated_pixel(arr::<3>(px), *count),
            _ => di.send_repeated_pixel(arr::<4>(px), *count),
        },
    }
}

fn strip_delays(v: Vec<BusEv>) -> Vec<BusEv> {
    v.into_iter().filter(|e| !matches!(e, BusEv::Delay(_))).collect()
}

fn first_diff(got: &[BusEv], want: &[BusEv]) -> String {
    for (i, (g, w)) in got.iter().zip(want.iter()).enumerate() {
        if g != w {
            return match (g, w) {
                (BusEv::Data(a), BusEv::Data(b)) => {
                    let k = a.iter().zip(b.iter()).position(|(x, y)| x != y).unwrap_or(a.len().min(b.len()));
                    format!(
                        "event {}: data differs at word {} (got len {} want len {}; got {:?} want {:?})",
                        i,
                        k,
                        a.len(),
                        b.len(),
                        a.get(k.saturating_sub(1)..(k + 3).min(a.len())),
                        b.get(k.saturating_sub(1)..(k + 3).min(b.len()))
                    )
                }
                _ => format!("event {}: got {:?} want {:?}", i, short(g), short(w)),
            };
        }
    }
    format!("event count: got {} want {} (extra: {:?})", got.len(), want.len(), got.get(want.len()).or(want.get(got.len())).map(short))
}
fn short(e: &BusEv) -> String {
    match e {
        BusEv::Data(d) => format!("Data(len {}, head {:?})", d.len(), &d[..d.len().min(6)]),
        o => format!("{:?}", o),
    }
}

// ------------------------------------------------------------------ C06

pub fn c06(args: &Args) -> Acc {
    let mut total = Acc::new();
    let n = if args.want_stage("main") { args.n(200_000, 3_000_000) } else { 0 };
    let acc = par_cases(n, args.threads, if n == 0 { None } else { args.case }, |idx, a| {
        let mut rng = Rng::for_case(args.seed, "C06", &args.tier, idx);
        let buf_len = match rng.below(8) {
            0 if rng.chance(1, 6) => 0, // no staging buffer at all: commands must still work
            0 => 4,
            1 => 5,
            2 => rng.range(4, 14) as usize,
            3 => 16,
            4 => 64,
            5 => 512,
            6 => rng.range(4, 300) as usize,
            _ => {
                if !crate::small() && rng.chance(1, 25) {
                    *rng.pick(&[4098usize, 16384, 131072, 131074, 196608, 262144])
                } else {
                    12
                }
            }
        };
        let max_count = if crate::small() { 60 } else if buf_len > 4096 { 300_000 } else if args.quick() { 3000 } else { 1 << 20 };
        let nops = rng.range(1, 6);
        let mut ops = vec![TOp::Cmd { cmd: 0x2C, params: vec![] }];
        for _ in 0..nops {
            let mut op = gen_top(&mut rng, 0xFF, buf_len as u64, max_count);
            // the interface asserts buffer.len() >= N
            if let TOp::Pixels { n, .. } | TOp::Repeat { n, .. } = &op {
                if *n > buf_len {
                    op = TOp::Cmd { cmd: 0x00, params: vec![] };
                }
            }
            ops.push(op);
        }
        history_hostile(&mut rng, &mut ops, 0xFF, buf_len.min(4), !crate::small() && buf_len > 0);
        // the staging buffer starts at any address modulo 4 (a sub-slice of a bigger array)
        let buf_off = rng.below(4) as usize;
        // every fourth case: a second interface object whose D/C pin handle is the same physical
        // wire (two displays with separate chip selects and a shared D/C line, decoded here as one
        // byte stream); calls alternate between the two objects at random
        let shared_dc = buf_len >= 4 && rng.chance(1, 4);
        let which: Vec<bool> = ops.iter().map(|_| shared_dc && rng.bool()).collect();
        let case = || {
            J::obj()
                .with("spi_buffer_len", buf_len)
                .with("spi_buffer_address_mod_4", buf_off)
                .with("calls", ops.iter().map(|o| o.json()).collect::<Vec<_>>())
                .with("second_interface_on_the_same_dc_wire_used_for_calls", which.iter().enumerate().filter(|(_, b)| **b).map(|(i, _)| i as u64).collect::<Vec<_>>())
        };
        let tl = Tl::new(8);
        // sentinel pattern in the staging buffer
        let (buf, _keep) = crate::rig::spi_buffer(buf_len, buf_off);
        let (buf2, _keep2) = crate::rig::spi_buffer(buf_len.max(4), (buf_off + 1) % 4);
        let mut di = SpiInterface::new(tl.spi(), tl.pin(Src::Dc), buf);
        let mut di2 = SpiInterface::new(tl.spi(), tl.pin(Src::Dc), buf2);
        if shared_dc {
            a.count("sequences_over_two_interfaces_sharing_the_dc_wire", 1);
        }
        let mut h = std::collections::hash_map::DefaultHasher::new();
        std::hash::Hash::hash(&(buf_len, &ops, buf_off, &which), &mut h);
        a.case_hash(std::hash::Hasher::finish(&h), ops.iter().any(|o| !matches!(o, TOp::Cmd { .. })));
        a.seen("buffer_lengths", format!("{}", buf_len));
        for (i, op) in ops.iter().enumerate() {
            let words = op.words();
            // every transaction of a terminating implementation carries at least one byte,
            // plus DC / command overhead
            let budget = 64 + 4 * words;
            let txn0 = tl.0.borrow().spi_txns;
            tl.begin_call(budget, None);
            let r = if which[i] { guarded(|| apply_u8(&mut di2, op)) } else { guarded(|| apply_u8(&mut di, op)) };
            tl.end_call();
            let got = strip_delays(tl.take_bus());
            let sig_op = match op {
                TOp::Cmd { .. } => "send_command",
                TOp::Pixels { .. } => "send_pixels",
                TOp::Repeat { .. } => "send_repeated_pixel",
            };
            match r {
                Err(CallResult::Budget { ops: o }) => {
                    let zero = matches!(op, TOp::Repeat { count: 0, .. });
                    a.violate(
                        "main",
                        idx,
                        format!("{}/no-termination{}", sig_op, if zero { "[count=0]" } else { "" }),
                        format!("call {} did not return within {} low-level operations (expected {} words); stopped at op {}", i, budget, words, o),
                        case(),
                    );
                    return;
                }
                Err(CallResult::Panic { msg, loc }) => {
                    a.violate("main", idx, format!("{}/panic@{}", sig_op, loc), format!("call {}: {}", i, msg), case());
                    return;
                }
                Err(_) => unreachable!(),
                Ok(Err(e)) => {
                    a.violate("main", idx, format!("{}/spurious-error", sig_op), format!("call {}: {:?}", i, e), case());
                    return;
                }
                Ok(Ok(())) => {}
            }
            let mut want = Vec::new();
            op.expect(&mut want);
            a.count("calls", 1);
            a.count("bytes_expected", words);
            a.count("spi_transactions", tl.0.borrow().spi_txns - txn0);
            if let TOp::Repeat { count, n, .. } = op {
                let cap = (buf_len / n) as u64;
                a.seen(
                    "repeat_count_classes",
                    if *count == 0 {
                        "0".to_string()
                    } else if (*count as u64) < cap {
                        "<cap".into()
                    } else if *count as u64 == cap {
                        "=cap".into()
                    } else if *count as u64 % cap == 0 {
                        "k*cap".into()
                    } else {
                        ">cap".into()
                    },
                );
            }
            if got != want {
                let kind = if got.iter().any(|e| matches!(e, BusEv::Wire(_))) { "dc-discipline" } else { "bytes" };
                a.violate("main", idx, format!("{}/{}", sig_op, kind), format!("call {}: {}", i, first_diff(&got, &want)), case());
                return;
            }
        }
        if idx < 3 {
            a.sample(case());
        }
    });
    total.merge(acc);
    // repeat counts up to u32::MAX with transfer buffers of hundreds of KiB, on a counting-only
    // SPI device (bytes and transactions are counted, not stored)
    if args.want_stage("huge") && args.scale >= 1.0 {
        let mut a = Acc::new();
        for (buf_len, count, n) in [(262_144usize, u32::MAX, 2usize), (300_000, u32::MAX - 1, 2), (262_144, u32::MAX, 3), (131_072, 1u32 << 31, 2), (393_216, u32::MAX - 70_000, 3)] {
            if args.quick() && n == 3 && buf_len != 262_144 {
                continue;
            }
            struct CountSpi<'a>(&'a std::cell::Cell<(u64, u64)>);
            impl embedded_hal::spi::ErrorType for CountSpi<'_> {
                type Error = Fault;
            }
            impl embedded_hal::spi::SpiDevice for CountSpi<'_> {
                fn transaction(&mut self, operations: &mut [embedded_hal::spi::Operation<'_, u8>]) -> Result<(), Fault> {
                    let (mut bytes, txns) = self.0.get();
                    for op in operations.iter() {
                        if let embedded_hal::spi::Operation::Write(b) = op {
                            bytes += b.len() as u64;
                        }
                    }
                    if txns > 40_000_000 {
                        std::panic::panic_any(BudgetExceeded { ops: txns });
                    }
                    self.0.set((bytes, txns + 1));
                    Ok(())
                }
            }
            let cell = std::cell::Cell::new((0u64, 0u64));
            let tl = Tl::new(8);
            let mut buf = vec![0xA5u8; buf_len];
            let mut di = SpiInterface::new(CountSpi(&cell), tl.pin(Src::Dc), &mut buf[..]);
            let case = J::obj().with("spi_buffer_len", buf_len).with("N", n).with("count", count);
            let r = guarded(|| match n {
                2 => di.send_repeated_pixel([0x12u8, 0x34], count),
                _ => di.send_repeated_pixel([0x12u8, 0x34, 0x56], count),
            });
            let (bytes, txns) = cell.get();
            let want = count as u64 * n as u64;
            let usable = (buf_len / n * n) as u64;
            a.case(&format!("huge/{}/{}/{}", buf_len, count, n), true);
            a.count("huge_repeat_bytes_counted", bytes);
            match r {
                Err(CallResult::Panic { msg, loc }) => a.violate("huge", n as u64, format!("send_repeated_pixel/panic@{}[count near 2^32]", loc), msg, case),
                Err(_) => a.violate("huge", n as u64, "send_repeated_pixel/no-termination[count near 2^32]", "more than 4*10^7 transactions", case),
                Ok(Err(e)) => a.violate("huge", n as u64, "send_repeated_pixel/spurious-error", format!("{:?}", e), case),
                Ok(Ok(())) => {
                    if bytes != want {
                        a.violate("huge", n as u64, "send_repeated_pixel/byte-count[count near 2^32]", format!("{} bytes written for {} pixels of {} bytes (expected {})", bytes, count, n, want), case);
                    } else if txns > want / usable + 1 {
                        a.violate("huge", n as u64, "send_repeated_pixel/transactions[count near 2^32]", format!("{} transactions, bound {}", txns, want / usable + 1), case);
                    }
                }
            }
        }
        total.merge(a);
    }
    // sequences with an injected fault: the faulted call reports it, every later call delivers
    // exactly its bytes again (caches inside the interface must not survive a failed call)
    if args.want_stage("faults") {
        let n = args.n(100_000, 2_000_000);
        let acc = par_cases(n, args.threads, args.case, |idx, a| {
            let mut rng = Rng::for_case(args.seed, "C06/faults", &args.tier, idx);
            let buf_len = *rng.pick(&[4usize, 6, 8, 12, 16, 33, 64]);
            let effect = *rng.pick(&[Effect::NoEffect, Effect::TookEffect, Effect::Inverted]);
            let nops = rng.range(4, 9) as usize;
            // few distinct pixels and counts so that the same fill recurs
            let pxs = [[0x12u16, 0x34, 0, 0], [0xAB, 0xCD, 0, 0], [0x12, 0x34, 0, 0]];
            let mut ops: Vec<TOp> = Vec::new();
            for i in 0..nops {
                if i % 2 == 0 {
                    ops.push(TOp::Cmd { cmd: *rng.pick(&[0x2A, 0x2C, 0x2B]), params: (0..rng.range(0, 4)).map(|_| rng.next() as u8).collect() });
                } else {
                    let px = *rng.pick(&pxs);
                    let count = *rng.pick(&[1u32, 2, 3, 5, 8, 16, 17]);
                    ops.push(if rng.bool() { TOp::Repeat { n: 2, px, count } } else { TOp::Pixels { n: 2, px: (0..count).map(|k| [px[0] ^ k as u16 & 0xFF, px[1], 0, 0]).collect() } });
                }
            }
            let f1 = rng.below(nops as u64 - 1) as usize;
            let k1 = rng.below(6);
            let case = || {
                J::obj().with("spi_buffer_len", buf_len).with("effect", format!("{:?}", effect)).with("calls", ops.iter().map(|o| o.json()).collect::<Vec<_>>()).with("fault_call_op", vec![f1 as u64, k1])
            };
            let tl = Tl::new(8);
            tl.b().effect = effect;
            let (buf, _keep) = crate::rig::spi_buffer(buf_len, (f1 + k1 as usize) % 4);
            let mut di = SpiInterface::new(tl.spi(), tl.pin(Src::Dc), buf);
            let mut h = std::collections::hash_map::DefaultHasher::new();
            std::hash::Hash::hash(&(buf_len, &ops, f1, k1, effect as u8), &mut h);
            let mut after_fault = false;
            let mut faults_hit = 0;
            for (i, op) in ops.iter().enumerate() {
                // after an aborted call only a command re-establishes the D/C level
                if after_fault && !matches!(op, TOp::Cmd { .. }) {
                    continue;
                }
                tl.begin_call(64 + 4 * op.words(), if i == f1 { Some(k1) } else { None });
                let r = guarded(|| apply_u8(&mut di, op));
                let faulted = tl.0.borrow().faulted;
                tl.end_call();
                let got = strip_delays(tl.take_bus());
                match r {
                    Err(c) => {
                        a.violate("faults", idx, "call/panic-or-budget", format!("call {}: {:?}", i, c), case());
                        return;
                    }
                    Ok(Err(_)) => {
                        if faulted.is_none() {
                            a.violate("faults", idx, "call/spurious-error", format!("call {} failed without an injected fault", i), case());
                            return;
                        }
                        faults_hit += 1;
                        after_fault = true;
                        continue;
                    }
                    Ok(Ok(())) => {
                        if faulted.is_some() {
                            a.violate("faults", idx, "call/error-swallowed", format!("call {} returned Ok although {:?} failed", i, faulted), case());
                            return;
                        }
                    }
                }
                let mut want = Vec::new();
                op.expect(&mut want);
                a.count(if faults_hit > 0 { "calls_checked_after_a_fault" } else { "calls_checked_before_fault" }, 1);
                if got != want {
                    let kind = if got.iter().any(|e| matches!(e, BusEv::Wire(_))) { "dc-discipline" } else { "bytes" };
                    a.violate("faults", idx, format!("{}{}", if faults_hit > 0 { "after-fault/" } else { "" }, kind), format!("call {} (after {} faulted call(s)): {}", i, faults_hit, first_diff(&got, &want)), case());
                    return;
                }
                after_fault = false;
            }
            a.case_hash(std::hash::Hasher::finish(&h), faults_hit > 0);
            if idx < 2 {
                a.sample(case());
            }
        });
        total.merge(acc);
    }
    total.notes.insert(
        "rule".into(),
        J::Str("case = (staging buffer length, sequence of send_command / send_pixels / send_repeated_pixel calls on one SpiInterface); distinct = hash; non-trivial = contains a pixel call".into()),
    );
    total
}

// ------------------------------------------------------------------ C07

/// WR pin that only counts (for the >= 2^32 strobes case).
struct CountPin<'a>(&'a std::cell::Cell<u64>);
impl embedded_hal::digital::ErrorType for CountPin<'_> {
    type Error = Fault;
}
impl OutputPin for CountPin<'_> {
    #[inline(never)]
    fn set_low(&mut self) -> Result<(), Fault> {
        Ok(())
    }
    #[inline(never)]
    fn set_high(&mut self) -> Result<(), Fault> {
        let v = self.0.get() + 1;
        // a terminating, correct implementation needs exactly count*N rising edges
        if v > (1u64 << 35) + 16 {
            std::panic::panic_any(BudgetExceeded { ops: v });
        }
        self.0.set(v);
        Ok(())
    }
}

pub fn c07(args: &Args) -> Acc {
    let mut total = Acc::new();
    // (a) word sequences on 8- and 16-bit buses
    if args.want_stage("words") {
        let n = args.n(100_000, 2_000_000);
        let acc = par_cases(n, args.threads, args.case, |idx, a| {
            let mut rng = Rng::for_case(args.seed, "C07/words", &args.tier, idx);
            let wide = rng.bool();
            let mask = if wide { 0xFFFF } else { 0xFF };
            let max_count = if crate::small() { 40 } else if args.quick() { 2000 } else { 1 << 20 };
            let nops = rng.range(1, 6);
            let mut ops = vec![];
            for _ in 0..nops {
                ops.push(gen_top(&mut rng, mask, 50, max_count));
            }
            history_hostile(&mut rng, &mut ops, mask, 4, !crate::small());
            // a pixel call before any command would sample an undriven DC line: start with a command
            ops.insert(0, TOp::Cmd { cmd: 0x2C, params: vec![] });
            let case = || J::obj().with("bus_bits", if wide { 16 } else { 8 }).with("calls", ops.iter().map(|o| o.json()).collect::<Vec<_>>());
            let tl = Tl::new(if wide { 16 } else { 8 });
            let mut h = std::collections::hash_map::DefaultHasher::new();
            std::hash::Hash::hash(&(wide, &ops), &mut h);
            a.case_hash(std::hash::Hasher::finish(&h), ops.len() > 1);
            let mut di8 = if !wide { Some(ParallelInterface::new(bus8(&tl), tl.pin(Src::Dc), tl.pin(Src::Wr))) } else { None };
            let mut di16 = if wide { Some(ParallelInterface::new(bus16(&tl), tl.pin(Src::Dc), tl.pin(Src::Wr))) } else { None };
            for (i, op) in ops.iter().enumerate() {
                let words = op.words();
                let budget = 64 + 24 * words;
                let e0 = tl.0.borrow().wr_edges;
                tl.begin_call(budget, None);
                let r = guarded(|| match (&mut di8, &mut di16) {
                    (Some(d), _) => apply_u8(d, op).map_err(|e| format!("{:?}", e)),
                    (_, Some(d)) => apply_u16(d, op).map_err(|e| format!("{:?}", e)),
                    _ => unreachable!(),
                });
                tl.end_call();
                let got = strip_delays(tl.take_bus());
                let sig_op = match op {
                    TOp::Cmd { .. } => "send_command",
                    TOp::Pixels { .. } => "send_pixels",
                    TOp::Repeat { .. } => "send_repeated_pixel",
                };
                match r {
                    Err(CallResult::Budget { ops: o }) => {
                        a.violate("words", idx, format!("{}/no-termination", sig_op), format!("call {} exceeded {} low-level operations at {}", i, budget, o), case());
                        return;
                    }
                    Err(CallResult::Panic { msg, loc }) => {
                        a.violate("words", idx, format!("{}/panic@{}", sig_op, loc), format!("call {}: {}", i, msg), case());
                        return;
                    }
                    Err(_) => unreachable!(),
                    Ok(Err(e)) => {
                        a.violate("words", idx, format!("{}/spurious-error", sig_op), format!("call {}: {}", i, e), case());
                        return;
                    }
                    Ok(Ok(())) => {}
                }
                let mut want = Vec::new();
                op.expect(&mut want);
                a.count("calls", 1);
                a.count("words_expected", words);
                a.count("wr_rising_edges_sampled", tl.0.borrow().wr_edges - e0);
                if let TOp::Repeat { px, n, count } = op {
                    let same = px[..*n].iter().all(|w| *w == px[0]);
                    a.seen("repeat_classes", format!("{}{}", if same { "all-equal" } else { "mixed" }, if *count == 0 { "/0" } else if *count == 1 { "/1" } else { "/n" }));
                }
                if got != want {
                    let kind = if got.iter().any(|e| matches!(e, BusEv::Wire(_))) { "undriven-or-dc" } else { "words" };
                    a.violate("words", idx, format!("{}/{}", sig_op, kind), format!("call {}: {}", i, first_diff(&got, &want)), case());
                    return;
                }
            }
            if idx < 2 {
                a.sample(case());
            }
        });
        total.merge(acc);
    }
    // (a2) a fault somewhere in a call sequence on one ParallelInterface: the faulted call must
    // report it, and every *later* call must put exactly its words on the bus again
    if args.want_stage("words-faults") {
        let n = args.n(100_000, 2_000_000);
        let acc = par_cases(n, args.threads, args.case, |idx, a| {
            let mut rng = Rng::for_case(args.seed, "C07/words-faults", &args.tier, idx);
            let wide = rng.bool();
            let mask = if wide { 0xFFFF } else { 0xFF };
            let effect = *rng.pick(&[Effect::NoEffect, Effect::TookEffect, Effect::Inverted]);
            let nops = rng.range(3, 8) as usize;
            let mut ops: Vec<TOp> = Vec::new();
            for i in 0..nops {
                // every other call is a command, as in real traffic (a pixel call never comes first
                // or directly after a faulted call)
                if i % 2 == 0 {
                    let plen = rng.range(0, 6) as usize;
                    // few distinct values, so that words repeat across calls
                    ops.push(TOp::Cmd { cmd: *rng.pick(&[0x2A, 0x2B, 0x2C, 0x28, 0x00, 0xFF]), params: (0..plen).map(|_| *rng.pick(&[0u8, 0x2A, 0xFF, 0x28, 0x01])).collect() });
                } else {
                    ops.push(gen_top(&mut rng, mask, 50, 40));
                }
            }
            // which calls get a fault (one or two, possibly consecutive), and where
            let f1 = rng.below(nops as u64 - 1) as usize;
            let two = rng.chance(1, 3);
            let f2 = if two { (f1 + 1 + rng.below(2) as usize).min(nops - 2) } else { usize::MAX };
            let k1 = rng.below(24);
            let k2 = rng.below(24);
            let case = || {
                J::obj()
                    .with("bus_bits", if wide { 16 } else { 8 })
                    .with("effect", format!("{:?}", effect))
                    .with("calls", ops.iter().map(|o| o.json()).collect::<Vec<_>>())
                    .with("fault_call_op", vec![vec![f1 as u64, k1], vec![f2 as u64, k2]])
            };
            let tl = Tl::new(if wide { 16 } else { 8 });
            tl.b().effect = effect;
            let mut h = std::collections::hash_map::DefaultHasher::new();
            std::hash::Hash::hash(&(wide, &ops, f1, f2, k1, k2, effect as u8), &mut h);
            let mut di8 = if !wide { Some(ParallelInterface::new(bus8(&tl), tl.pin(Src::Dc), tl.pin(Src::Wr))) } else { None };
            let mut di16 = if wide { Some(ParallelInterface::new(bus16(&tl), tl.pin(Src::Dc), tl.pin(Src::Wr))) } else { None };
            let mut after_fault = false; // the previous call was cut short by a fault
            let mut faults_hit = 0;
            for (i, op) in ops.iter().enumerate() {
                // after an aborted call the D/C line is wherever that call left it: only a command
                // re-establishes it, so skip pixel calls until then (real traffic does the same)
                if after_fault && !matches!(op, TOp::Cmd { .. }) {
                    continue;
                }
                let fail = if i == f1 { Some(k1) } else if i == f2 { Some(k2) } else { None };
                tl.begin_call(64 + 24 * op.words(), fail);
                let r = guarded(|| match (&mut di8, &mut di16) {
                    (Some(d), _) => apply_u8(d, op).map_err(|e| format!("{:?}", e)),
                    (_, Some(d)) => apply_u16(d, op).map_err(|e| format!("{:?}", e)),
                    _ => unreachable!(),
                });
                let faulted = tl.0.borrow().faulted;
                tl.end_call();
                let got = strip_delays(tl.take_bus());
                match r {
                    Err(c) => {
                        a.violate("words-faults", idx, "call/panic-or-budget", format!("call {}: {:?}", i, c), case());
                        return;
                    }
                    Ok(Err(_)) => {
                        if faulted.is_none() {
                            a.violate("words-faults", idx, "call/spurious-error", format!("call {} failed without an injected fault", i), case());
                            return;
                        }
                        faults_hit += 1;
                        after_fault = true;
                        continue;
                    }
                    Ok(Ok(())) => {
                        if faulted.is_some() {
                            a.violate("words-faults", idx, "call/error-swallowed", format!("call {} returned Ok although {:?} failed", i, faulted), case());
                            return;
                        }
                    }
                }
                let mut want = Vec::new();
                op.expect(&mut want);
                a.count(if faults_hit > 0 { "calls_checked_after_a_fault" } else { "calls_checked_before_fault" }, 1);
                if got != want {
                    a.violate(
                        "words-faults",
                        idx,
                        if faults_hit > 0 { "after-fault/words" } else { "words" },
                        format!("call {} (after {} faulted call(s)): {}", i, faults_hit, first_diff(&got, &want)),
                        case(),
                    );
                    return;
                }
                after_fault = false;
            }
            // every third case: one more call is cut short by a fault and the interface is then
            // taken apart with release(). Handing the pins back must not touch them: with WR left
            // low and half a word on the bus, one more edge would latch a word nobody sent
            if idx % 3 == 0 {
                let last = TOp::Pixels { n: 2, px: vec![[0x07, 0x15, 0, 0], [0x22, 0x38, 0, 0]] };
                tl.begin_call(64 + 24 * last.words(), Some(2 + (idx / 3) % 9));
                let _ = guarded(|| match (&mut di8, &mut di16) {
                    (Some(d), _) => apply_u8(d, &last).map_err(|e| format!("{:?}", e)),
                    (_, Some(d)) => apply_u16(d, &last).map_err(|e| format!("{:?}", e)),
                    _ => unreachable!(),
                });
                tl.end_call();
                let _ = tl.take_bus();
                let (edges0, writes0) = {
                    let t = tl.0.borrow();
                    (t.wr_edges, t.pin_writes)
                };
                let r = guarded(|| {
                    if let Some(d) = di8.take() {
                        drop(d.release());
                    }
                    if let Some(d) = di16.take() {
                        drop(d.release());
                    }
                });
                let (edges1, writes1) = {
                    let t = tl.0.borrow();
                    (t.wr_edges, t.pin_writes)
                };
                a.count("releases_after_a_failed_call_checked", 1);
                let latched = strip_delays(tl.take_bus());
                if r.is_err() || edges1 != edges0 || writes1 != writes0 || !latched.is_empty() {
                    a.violate(
                        "words-faults",
                        idx,
                        "release/touches-the-pins",
                        format!("ParallelInterface::release() after a failed call: {} pin writes, {} WR rising edges, latched {:?}", writes1 - writes0, edges1 - edges0, latched),
                        case(),
                    );
                    return;
                }
            }
            a.case_hash(std::hash::Hasher::finish(&h), faults_hit > 0);
            if idx < 2 {
                a.sample(case());
            }
        });
        total.merge(acc);
    }
    // (b) set_value histories with a failing data pin, three fault effect modes
    if args.want_stage("bus") {
        let n = args.n(400_000, 6_000_000);
        let acc = par_cases(n, args.threads, args.case, |idx, a| {
            let mut rng = Rng::for_case(args.seed, "C07/bus", &args.tier, idx);
            let wide = rng.bool();
            let bits = if wide { 16u32 } else { 8 };
            let mask: u16 = if wide { 0xFFFF } else { 0xFF };
            let effect = *rng.pick(&[Effect::NoEffect, Effect::TookEffect, Effect::Inverted]);
            let len = rng.range(1, 30) as usize;
            let mut vals: Vec<u16> = Vec::new();
            let mut prev = 0u16;
            for _ in 0..len {
                let v = match rng.below(7) {
                    0 => 0,
                    1 => mask,
                    2 => 1 << rng.below(bits as u64),
                    3 => prev,
                    4 => prev ^ (1 << rng.below(bits as u64)),
                    5 => !prev & mask,
                    _ => rng.next() as u16 & mask,
                };
                vals.push(v);
                prev = v;
            }
            // faults: a set of (call index, relative op index) pairs
            let nf = rng.range(0, 3);
            let mut faults: Vec<(usize, u64)> = (0..nf).map(|_| (rng.below(len as u64) as usize, rng.below(bits as u64))).collect();
            faults.sort();
            faults.dedup_by_key(|f| f.0);
            let case = || {
                J::obj()
                    .with("bus_bits", bits)
                    .with("effect", format!("{:?}", effect))
                    .with("values", vals.clone())
                    .with("faults_call_op", faults.iter().map(|f| vec![f.0 as u64, f.1]).collect::<Vec<_>>())
            };
            let tl = Tl::new(bits as u8);
            tl.b().effect = effect;
            let mut b8 = if !wide { Some(bus8(&tl)) } else { None };
            let mut b16 = if wide { Some(bus16(&tl)) } else { None };
            let mut h = std::collections::hash_map::DefaultHasher::new();
            std::hash::Hash::hash(&(wide, &vals, &faults, effect as u8), &mut h);
            a.case_hash(std::hash::Hasher::finish(&h), !faults.is_empty() || len > 1);
            for (i, v) in vals.iter().enumerate() {
                let fail = faults.iter().find(|f| f.0 == i).map(|f| f.1);
                tl.begin_call(64, fail);
                let r = guarded(|| match (&mut b8, &mut b16) {
                    (Some(b), _) => b.set_value(*v as u8),
                    (_, Some(b)) => b.set_value(*v),
                    _ => unreachable!(),
                });
                let faulted = tl.0.borrow().faulted;
                tl.end_call();
                a.count("set_value_calls", 1);
                match r {
                    Err(CallResult::Panic { msg, loc }) => {
                        a.violate("bus", idx, format!("set_value/panic@{}", loc), msg, case());
                        return;
                    }
                    Err(_) => {
                        a.violate("bus", idx, "set_value/no-termination", "budget", case());
                        return;
                    }
                    Ok(Err(f)) => {
                        a.count("set_value_failed", 1);
                        if Some(f) != faulted {
                            a.violate("bus", idx, "set_value/wrong-error", format!("returned {:?}, injected {:?}", f, faulted), case());
                            return;
                        }
                    }
                    Ok(Ok(())) => {
                        if faulted.is_some() {
                            a.violate("bus", idx, "set_value/error-swallowed", format!("call {} returned Ok although pin write {:?} failed", i, faulted), case());
                            return;
                        }
                        // the data pins must show the value
                        let t = tl.0.borrow();
                        let mut shown = 0u16;
                        let mut undriven = false;
                        for bit in 0..bits as usize {
                            match t.d[bit] {
                                Some(true) => shown |= 1 << bit,
                                Some(false) => {}
                                None => undriven = true,
                            }
                        }
                        drop(t);
                        a.count("pin_states_checked", 1);
                        if undriven || shown != *v {
                            a.violate(
                                "bus",
                                idx,
                                "set_value/pins-differ",
                                format!("after successful set_value({:#x}) (call {}) the pins show {:#x}{}", v, i, shown, if undriven { " with undriven pins" } else { "" }),
                                case(),
                            );
                            return;
                        }
                    }
                }
            }
            if idx < 2 {
                a.sample(case());
            }
        });
        total.merge(acc);
    }
    // (c) count * N >= 2^32 with an all-equal pixel (strobe-only fast path); not in scaled-down
    // runs (valgrind)
    if args.want_stage("huge") && args.scale >= 1.0 {
        let mut a = Acc::new();
        // exactly 2^32 strobes, just above it (a loop counted in 32-bit chunks), and the maximum
        for (n, count) in [(2usize, 1u32 << 31), (2, (1 << 31) + 1), (4, 1 << 30), (3, 1431655766), (1, u32::MAX), (3, 1431655767), (4, u32::MAX)] {
            if args.quick() && n != 2 {
                continue;
            }
            let tl = Tl::new(8);
            let edges = std::cell::Cell::new(0u64);
            let mut di = ParallelInterface::new(bus8(&tl), tl.pin(Src::Dc), CountPin(&edges));
            let case = J::obj().with("bus_bits", 8).with("N", n).with("count", count).with("pixel", "all words 0x00");
            let r = guarded(|| match n {
                1 => di.send_repeated_pixel([0u8; 1], count),
                2 => di.send_repeated_pixel([0u8; 2], count),
                3 => di.send_repeated_pixel([0u8; 3], count),
                _ => di.send_repeated_pixel([0u8; 4], count),
            });
            let want = count as u64 * n as u64;
            a.case(&format!("huge/{}/{}", n, count), true);
            a.count("huge_repeat_cases", 1);
            a.count("wr_rising_edges_counted", edges.get());
            match r {
                Err(CallResult::Panic { msg, loc }) => a.violate("huge", n as u64, format!("send_repeated_pixel/panic@{}[count*N>=2^32]", loc), msg, case),
                Err(_) => a.violate("huge", n as u64, "send_repeated_pixel/no-termination[count*N>=2^32]", "more than 2^35 strobes", case),
                Ok(Err(e)) => a.violate("huge", n as u64, "send_repeated_pixel/spurious-error", format!("{:?}", e), case),
                Ok(Ok(())) => {
                    if edges.get() != want {
                        a.violate(
                            "huge",
                            n as u64,
                            "send_repeated_pixel/strobe-count[count*N>=2^32]",
                            format!("{} write strobes for {} x {} words (expected {})", edges.get(), count, n, want),
                            case,
                        );
                    }
                }
            }
        }
        total.merge(a);
    }
    total.notes.insert(
        "rule".into(),
        J::Str("words: case = sequence of calls on one ParallelInterface; bus: case = (bus width, fault effect mode, value history, injected pin faults); distinct = hash; non-trivial = more than one call / value or a fault".into()),
    );
    total
}

// ------------------------------------------------------------------ C05

pub fn c05(args: &Args) -> Acc {
    let mut total = Acc::new();
    // (a) exhaustive colour values per bus width, through both send paths
    if args.want_stage("exhaustive") {
        let combos: Vec<(ModelId, Tr)> = vec![
            (ModelId::Ext256x256, Tr::Spi),
            (ModelId::Ext256x256, Tr::P8),
            (ModelId::Ext256x256, Tr::P16),
            (ModelId::Ext240x320c666, Tr::Spi),
            (ModelId::Ext240x320c666, Tr::P8),
            // a user-written serial interface that takes 16-bit words
            (ModelId::Ext256x256, Tr::L1S16),
        ];
        // shard each combo's value space
        let shards_per = 16u64;
        let acc = par_cases(combos.len() as u64 * shards_per, args.threads, args.case, |idx, a| {
            let (model, tr) = combos[(idx / shards_per) as usize];
            let shard = idx % shards_per;
            let bits = model.bits();
            let space = 1u64 << bits;
            let per = space / shards_per;
            let (lo, hi) = (shard * per, (shard + 1) * per);
            let mut cfg = DispCfg::full(model, tr);
            cfg.spi_buf = [64, 5, 4096, 7][(shard % 4) as usize];
            let Opened::Ready(mut s) = Session::open(&cfg) else {
                a.violate("exhaustive", idx, "init", "init failed", cfg.to_json());
                return;
            };
            let (lw, lh) = (cfg.w as u64, cfg.h as u64);
            a.seen("combos", format!("{}/{}", model.name(), tr.name()));
            a.seen("colmod_announced", format!("{}:{:#04x}", model.name(), s.panel.colmod));
            // stream path: rows of consecutive values
            let mut v = lo;
            while v < hi {
                let nrow = (hi - v).min(lw);
                let rows = ((hi - v) / nrow).min(lh).max(1);
                let cnt = nrow * rows;
                let op = Op::SetPixels {
                    sx: 0,
                    sy: 0,
                    ex: (nrow - 1) as u16,
                    ey: (rows - 1) as u16,
                    colors: Stream::Seq { start: v as u32, step: 1, len: Some(cnt) },
                };
                let rep = s.step(&op);
                if let Some(f) = rep.findings.first() {
                    a.violate(
                        "exhaustive",
                        idx,
                        format!("stream/{}/{}", tr.name(), f.kind()),
                        format!("values {}..{}: {}", v, v + cnt, f.describe()),
                        cfg.to_json().with("values", vec![v, v + cnt]).with("path", "send_pixels"),
                    );
                    return;
                }
                a.count("values_checked_stream_path", cnt);
                v += cnt;
            }
            // repeat path: one fill_solid per value (1..3 pixels), every other one directly after
            // a single pixel of the same colour (so a transport that believes its staging
            // buffer already holds the colour is exposed)
            for v in lo..hi {
                let w = 1 + (v % 3) as u32;
                if v % 2 == 0 {
                    let rep = s.step(&Op::SetPixel { x: (v % 11) as u16, y: (v % 13) as u16, c: v as u32 });
                    if let Some(f) = rep.findings.first() {
                        a.violate(
                            "exhaustive",
                            idx,
                            format!("set_pixel/{}/{}", tr.name(), f.kind()),
                            format!("value {}: {}", v, f.describe()),
                            cfg.to_json().with("value", v).with("path", "send_pixels (single)"),
                        );
                        return;
                    }
                }
                let op = Op::FillSolid { rect: crate::ops::Rect { x: (v % 7) as i32, y: (v % 5) as i32, w, h: 1 }, c: v as u32 };
                let rep = s.step(&op);
                if let Some(f) = rep.findings.first() {
                    a.violate(
                        "exhaustive",
                        idx,
                        format!("solid/{}/{}", tr.name(), f.kind()),
                        format!("value {}: {}", v, f.describe()),
                        cfg.to_json().with("value", v).with("path", "send_repeated_pixel"),
                    );
                    return;
                }
                a.count("values_checked_repeat_path", 1);
            }
            a.case(&format!("{}/{}/{}", model.name(), tr.name(), shard), true);
            if shard == 0 {
                a.sample(cfg.to_json().with("values", vec![lo, hi]).with("paths", vec!["set_pixels stream", "fill_solid repeat"]));
            }
        });
        total.merge(acc);
    }
    // (b) every built-in model on every transport it accepts: announced COLMOD vs colour type
    if args.want_stage("models") {
        let mut list: Vec<(ModelId, Tr)> = Vec::new();
        for m in crate::rig::builtin() {
            for t in [Tr::Spi, Tr::P8, Tr::P16, Tr::L1S16] {
                if t.type_checks(m.bits()) && m.supports(t.kind()) {
                    list.push((m, t));
                }
            }
        }
        // thorough: every value of the colour type for every (built-in model, transport) pair
        let nsamp = if args.quick() { 600 } else { 1usize << 18 };
        let acc = par_cases(list.len() as u64, args.threads, args.case, |idx, a| {
            let (model, tr) = list[idx as usize];
            let mut rng = Rng::for_case(args.seed, "C05/models", &args.tier, idx);
            let mut cfg = DispCfg::full(model, tr);
            cfg.w = 16;
            cfg.h = 16;
            cfg.ori = Ori(rng.below(8) as u8);
            cfg.spi_buf = crate::gen::spi_buf_len(&mut rng, model.bits());
            let Opened::Ready(mut s) = Session::open(&cfg) else {
                a.violate("models", idx, "init", "init failed", cfg.to_json());
                return;
            };
            let bits = model.bits();
            a.seen("model_transport", format!("{}/{}", model.name(), tr.name()));
            if s.panel.colmod != spec::colmod(bits) {
                a.violate(
                    "models",
                    idx,
                    format!("colmod/{}", model.name()),
                    format!("init announced pixel format {:#04x}; a {}-bit colour type needs {:#04x}", s.panel.colmod, bits, spec::colmod(bits)),
                    cfg.to_json(),
                );
                return;
            }
            let mask = (1u32 << bits) - 1;
            let specials = [0u32, mask, 1, 1 << (bits - 1), 0x1F, 0x7E0, 0xF800, 0x3F, 0xFC0, 0x3F000, 0x00FF, 0xFF00, 0x8001];
            let exhaustive = nsamp >= (1usize << bits);
            let nsamp = if exhaustive { 1usize << bits } else { nsamp };
            for k in 0..nsamp {
                let v = if exhaustive { k as u32 } else if k < specials.len() { specials[k] & mask } else { rng.next() as u32 & mask };
                let x = (k % 16) as u16;
                let y = ((k / 16) % 16) as u16;
                let op = if k % 2 == 0 {
                    Op::SetPixel { x, y, c: v }
                } else {
                    Op::FillSolid { rect: crate::ops::Rect { x: x as i32, y: y as i32, w: 1, h: 1 }, c: v }
                };
                let rep = s.step(&op);
                if let Some(f) = rep.findings.first() {
                    a.violate(
                        "models",
                        idx,
                        format!("{}/{}/{}", op.name(), tr.name(), f.kind()),
                        format!("value {:#x}: {}", v, f.describe()),
                        cfg.to_json().with("value", v),
                    );
                    return;
                }
                a.count("model_colour_samples", 1);
            }
            a.case(&format!("{}/{}", model.name(), tr.name()), true);
            if idx < 2 {
                a.sample(cfg.to_json().with("colmod_announced", s.panel.colmod).with("samples", nsamp));
            }
        });
        total.merge(acc);
    }
    // (c) the colour on the wire must not depend on what was sent before: the same colour filled
    // again (more / fewer pixels), with hundreds of single pixels of other colours in between,
    // and across release() + a new Display with the other colour format whose wire bytes overlap
    if args.want_stage("history") {
        let mut list: Vec<(ModelId, Tr)> = Vec::new();
        for m in crate::rig::builtin() {
            for t in [Tr::Spi, Tr::P8, Tr::P16, Tr::L1S16] {
                if t.type_checks(m.bits()) && m.supports(t.kind()) {
                    list.push((m, t));
                }
            }
        }
        let reps = if args.quick() { 40u64 } else { 2000 };
        let acc = par_cases(list.len() as u64 * reps, args.threads, args.case, |idx, a| {
            let (model, tr) = list[(idx / reps) as usize];
            let mut rng = Rng::for_case(args.seed, "C05/history", &args.tier, idx);
            let mut cfg = DispCfg::full(model, tr);
            cfg.w = 24;
            cfg.h = 24;
            cfg.ori = Ori(rng.below(8) as u8);
            // (at least one pixel of either colour format: the interface may be handed on)
            cfg.spi_buf = crate::gen::spi_buf_len(&mut rng, model.bits()).min(600).max(3);
            let bits = model.bits();
            let mask = (1u32 << bits) - 1;
            let c = rng.next() as u32 & mask;
            let fill = |rng: &mut Rng, c: u32| {
                let w = rng.range(1, 24) as u32;
                // now and then several hundred pixels (longer than any staging-buffer fast path needs)
                let h = if rng.chance(1, 4) { rng.range(6, 24) } else { rng.range(1, 4) } as u32;
                Op::FillSolid { rect: crate::ops::Rect { x: rng.range(0, 24 - w as i64) as i32, y: rng.range(0, 24 - h as i64) as i32, w, h }, c }
            };
            let mut prog = vec![fill(&mut rng, c)];
            let shape = rng.below(4);
            match shape {
                0 => {
                    for _ in 0..rng.range(1, 4) {
                        prog.push(fill(&mut rng, c));
                    }
                }
                1 | 2 => {
                    let k = *rng.pick(&[1usize, 2, 255, 256, 257, 511, 512]);
                    for i in 0..k {
                        let other = (c ^ (1 + rng.next() as u32 % mask)) & mask;
                        prog.push(if shape == 1 || i % 3 > 0 {
                            Op::SetPixel { x: rng.below(24) as u16, y: rng.below(24) as u16, c: other }
                        } else {
                            Op::FillContiguous { rect: crate::ops::Rect { x: rng.below(20) as i32, y: rng.below(24) as i32, w: 3, h: 1 }, colors: Stream::Seq { start: other, step: 1, len: Some(3) } }
                        });
                    }
                    prog.push(fill(&mut rng, c));
                }
                _ => {}
            }
            let Opened::Ready(mut s) = Session::open(&cfg) else {
                a.violate("history", idx, "init", "init failed", cfg.to_json());
                return;
            };
            a.seen("history_shapes", ["same colour again", "single pixels in between", "pixels and short streams in between", "release and rebuild"][shape as usize]);
            for (i, op) in prog.iter().enumerate() {
                let rep = s.step(op);
                if let Some(f) = rep.findings.first() {
                    a.violate(
                        "history",
                        idx,
                        format!("history/{}/{}/{}", op.name(), tr.name(), f.kind()),
                        format!("call {} of {}: {}", i, prog.len(), f.describe()),
                        cfg.to_json().with("program", crate::gen::prog_json(&prog)),
                    );
                    return;
                }
            }
            a.count("history_calls_checked", prog.len() as u64);
            if shape == 3 {
                // the other colour format of the same controller family on the same interface
                use ModelId::*;
                let partner = match model {
                    ILI9341Rgb565 => Some(ILI9341Rgb666),
                    ILI9341Rgb666 => Some(ILI9341Rgb565),
                    ILI9342CRgb565 => Some(ILI9342CRgb666),
                    ILI9342CRgb666 => Some(ILI9342CRgb565),
                    ILI9486Rgb565 => Some(ILI9486Rgb666),
                    ILI9486Rgb666 => Some(ILI9486Rgb565),
                    ILI9488Rgb565 => Some(ILI9488Rgb666),
                    ILI9488Rgb666 => Some(ILI9488Rgb565),
                    ST7789 => Some(Ext240x320c666),
                    _ => None,
                };
                let Some(partner) = partner.filter(|m| tr.type_checks(m.bits()) && (!m.is_builtin() || m.supports(tr.kind()))) else {
                    a.case(&format!("{}/{}/{}", model.name(), tr.name(), idx % reps), true);
                    return;
                };
                // wire bytes [a, b] (16 bpp) and [0, a, b] / [a, b, 0] (18 bpp)
                let a8 = (rng.next() as u32 & 0xFC).max(4);
                let b8 = rng.next() as u32 & 0xFC;
                let c565 = a8 << 8 | b8;
                let c666 = if rng.bool() { (a8 >> 2) << 6 | (b8 >> 2) } else { (a8 >> 2) << 12 | (b8 >> 2) << 6 };
                let tag = |bits: u8| if bits == 16 { c565 } else { c666 };
                let first = fill(&mut rng, tag(bits));
                let second = fill(&mut rng, tag(partner.bits()));
                let rep = s.step(&first);
                if rep.findings.first().is_some() {
                    return; // judged above in the other shapes
                }
                let mut cfg2 = cfg.clone();
                cfg2.model = partner;
                let Opened::Ready(mut s2) = s.rebuild(&cfg2) else {
                    return; // C17 judges re-initialisation
                };
                let rep = s2.step(&second);
                a.count("history_rebuilds_with_overlapping_wire_bytes", 1);
                if let Some(f) = rep.findings.first() {
                    a.violate(
                        "history",
                        idx,
                        format!("history/after-release/{}/{}/{}", second.name(), tr.name(), f.kind()),
                        f.describe(),
                        cfg.to_json().with("program", crate::gen::prog_json(&[first.clone()])).with("rebuilt_as", cfg2.to_json()).with("program_after_rebuild", crate::gen::prog_json(&[second.clone()])),
                    );
                    return;
                }
            }
            a.case(&format!("{}/{}/{}", model.name(), tr.name(), idx % reps), true);
        });
        total.merge(acc);
    }
    total.notes.insert(
        "exhaustive".into(),
        J::Str("all 65,536 Rgb565 values on SPI / 8-bit / 16-bit buses and all 262,144 Rgb666 values on SPI / 8-bit buses, each through the stream path (set_pixels) and the repeat path (fill_solid)".into()),
    );
    total.notes.insert(
        "rule".into(),
        J::Str("exhaustive: case = (transport, 1/16 shard of the colour value space); models: case = (built-in model, transport); all are non-trivial".into()),
    );
    total
}
