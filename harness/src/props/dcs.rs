//! C14 address-mode encoding, C15 orientation algebra + angle parsing,
//! C16 vertical scroll, C18 DCS command serialisation.

use std::collections::{BTreeSet, VecDeque};

use mipidsi::dcs::{self, DcsCommand, InterfaceExt, SetAddressMode};
use mipidsi::options::{ColorOrder, ModelOptions, Orientation, Rotation, TearingEffect, ColorInversion};

use crate::ev::{par_cases, Acc};
use crate::hal::{BusEv, KSerial, Tl, L1};
use crate::json::J;
use crate::ops::Op;
use crate::panel::PEv;
use crate::prng::Rng;
use crate::rig::{from_orientation, guarded, to_orientation, to_refresh, CallResult, DispCfg, ModelId, Tr};
use crate::session::{Opened, Session};
use crate::spec::{self, Ori};
use crate::Args;

fn byte_of(m: SetAddressMode) -> u8 {
    let mut b = [0xEEu8; 16];
    let n = m.fill_params_buf(&mut b);
    assert_eq!(n, 1);
    b[0]
}

// ------------------------------------------------------------------ C14

pub fn c14(_args: &Args) -> Acc {
    let mut a = Acc::new();
    let co = |b: bool| if b { ColorOrder::Bgr } else { ColorOrder::Rgb };
    // all 2 x 8 x 4 constructor inputs, and From<&ModelOptions>
    for bgr in [false, true] {
        for o in 0..8u8 {
            for r in 0..4u8 {
                let want = spec::madctl(bgr, Ori(o), r & 1 != 0, r & 2 != 0);
                let case = J::obj().with("bgr", bgr).with("orientation", Ori(o).name()).with("refresh", r);
                let got = byte_of(SetAddressMode::new(co(bgr), to_orientation(Ori(o)), to_refresh(r)));
                a.case(&format!("new/{}/{}/{}", bgr, o, r), true);
                if got != want {
                    a.violate("new", (o as u64) << 8 | r as u64, "new/encoding", format!("SetAddressMode::new -> {:#010b}, MIPI encoding is {:#010b}", got, want), case.clone());
                }
                let mut opts = ModelOptions::with_all((1, 1), (0, 0));
                opts.color_order = co(bgr);
                opts.orientation = to_orientation(Ori(o));
                opts.refresh_order = to_refresh(r);
                let got2 = byte_of(SetAddressMode::from(&opts));
                a.case(&format!("from/{}/{}/{}", bgr, o, r), true);
                if got2 != want {
                    a.violate("from", (o as u64) << 8 | r as u64, "from-options/encoding", format!("From<&ModelOptions> -> {:#010b}, MIPI encoding is {:#010b}", got2, want), case);
                }
                if got & 0x03 != 0 {
                    a.violate("new", 0, "new/low-bits", format!("{:#010b}", got), J::Null);
                }
            }
        }
    }
    // the refresh order reached through every public way of building one (constructor, struct
    // literal, the flip helpers in both orders, from the default and from the opposite corner)
    {
        use mipidsi::options::{HorizontalRefreshOrder as H, RefreshOrder, VerticalRefreshOrder as V};
        for r in 0..4u8 {
            let (bt, rl) = (r & 1 != 0, r & 2 != 0);
            let v = if bt { V::BottomToTop } else { V::TopToBottom };
            let h = if rl { H::RightToLeft } else { H::LeftToRight };
            let mut d1 = RefreshOrder::default();
            if bt {
                d1 = d1.flip_vertical();
            }
            if rl {
                d1 = d1.flip_horizontal();
            }
            let mut d2 = RefreshOrder::default();
            if rl {
                d2 = d2.flip_horizontal();
            }
            if bt {
                d2 = d2.flip_vertical();
            }
            // from the opposite corner: flip what must differ
            let mut d3 = RefreshOrder::new(V::BottomToTop, H::RightToLeft);
            if !bt {
                d3 = d3.flip_vertical();
            }
            if !rl {
                d3 = d3.flip_horizontal();
            }
            let built: [(&str, RefreshOrder); 6] = [
                ("new", RefreshOrder::new(v, h)),
                ("struct literal", RefreshOrder { vertical: v, horizontal: h }),
                ("default + flip_vertical, flip_horizontal", d1),
                ("default + flip_horizontal, flip_vertical", d2),
                ("opposite corner flipped back", d3),
                ("flipped twice", RefreshOrder::new(v, h).flip_horizontal().flip_vertical().flip_vertical().flip_horizontal()),
            ];
            for (how, ro) in built {
                for (o, bgr) in [(0u8, false), (5, true)] {
                    let want = spec::madctl(bgr, Ori(o), bt, rl);
                    let got = byte_of(SetAddressMode::new(co(bgr), to_orientation(Ori(o)), ro));
                    a.case(&format!("refresh-order/{}/{}/{}", r, how, o), true);
                    if got != want {
                        a.violate("refresh-order", r as u64, "refresh-order/encoding", format!("refresh order {} (bottom-to-top: {}, right-to-left: {}) built by `{}` -> {:#010b}, MIPI encoding is {:#010b}", r, bt, rl, how, got, want), J::obj().with("refresh", r).with("built_by", how));
                    }
                }
            }
        }
    }
    // closure of the reachable states under the 14 setter applications
    let mut seen: BTreeSet<u8> = BTreeSet::new();
    let mut q: VecDeque<SetAddressMode> = VecDeque::new();
    for start in [SetAddressMode::default(), SetAddressMode::new(ColorOrder::Rgb, Orientation::new(), to_refresh(0))] {
        if seen.insert(byte_of(start)) {
            q.push_back(start);
        }
    }
    let mut edges = 0u64;
    while let Some(m) = q.pop_front() {
        let b = byte_of(m);
        let mut next: Vec<(String, SetAddressMode, u8, u8)> = Vec::new(); // (name, value, field mask, field bits wanted)
        for bgr in [false, true] {
            next.push((format!("with_color_order({})", bgr), m.with_color_order(co(bgr)), 0x08, if bgr { 0x08 } else { 0 }));
        }
        for o in 0..8u8 {
            next.push((format!("with_orientation({})", Ori(o).name()), m.with_orientation(to_orientation(Ori(o))), 0xE0, spec::madctl(false, Ori(o), false, false) & 0xE0));
        }
        for r in 0..4u8 {
            next.push((format!("with_refresh_order({})", r), m.with_refresh_order(to_refresh(r)), 0x14, spec::madctl(false, Ori(0), r & 1 != 0, r & 2 != 0) & 0x14));
        }
        for (name, v, mask, want_bits) in next {
            edges += 1;
            let nb = byte_of(v);
            a.case(&format!("edge/{:#04x}/{}", b, name), true);
            let case = J::obj().with("from", b).with("setter", name.clone()).with("to", nb);
            if nb & !mask != b & !mask {
                a.violate("closure", edges, format!("{}/changes-other-bits", name.split('(').next().unwrap()), format!("{:#010b} --{}--> {:#010b}: bits outside mask {:#010b} changed", b, name, nb, mask), case.clone());
            }
            if nb & mask != want_bits {
                a.violate("closure", edges, format!("{}/field-encoding", name.split('(').next().unwrap()), format!("{:#010b} --{}--> {:#010b}: field bits {:#010b}, MIPI encoding {:#010b}", b, name, nb, nb & mask, want_bits), case);
            }
            if seen.insert(nb) {
                q.push_back(v);
            }
        }
    }
    a.count("reachable_states", seen.len() as u64);
    a.count("setter_edges_checked", edges);
    // order independence: all 6 application orders of the three setters from every reachable state
    let states: Vec<u8> = seen.iter().copied().collect();
    a.notes.insert("reachable_state_bytes".into(), J::from(states.iter().map(|b| *b as u64).collect::<Vec<u64>>()));
    a.sample(J::obj().with("constructor_inputs", 64).with("reachable_states", seen.len()).with("setter_edges", edges));
    a.notes.insert("exhaustive".into(), J::Str("all 64 constructor inputs; breadth-first closure of every state reachable from default()/new() under all 14 setter applications".into()));
    a.notes.insert("rule".into(), J::Str("case = constructor input triple or (reachable state, setter application); all distinct and non-trivial".into()));
    a
}

// ------------------------------------------------------------------ C15

/// A tagged image: value at (x, y) row-major, size (w, h).
#[derive(Clone, PartialEq, Eq, Debug)]
struct Img {
    w: usize,
    h: usize,
    px: Vec<u32>,
}
impl Img {
    fn tagged(w: usize, h: usize) -> Img {
        Img { w, h, px: (0..w * h).map(|i| 0x100 + i as u32).collect() }
    }
    fn at(&self, x: usize, y: usize) -> u32 {
        self.px[y * self.w + x]
    }
    fn from_fn(w: usize, h: usize, f: impl Fn(usize, usize) -> u32) -> Img {
        let mut px = Vec::with_capacity(w * h);
        for y in 0..h {
            for x in 0..w {
                px.push(f(x, y));
            }
        }
        Img { w, h, px }
    }
    /// rotate clockwise by 90 degrees
    fn rot_cw(&self) -> Img {
        // new size (h, w); new(x', y') = old(y', h-1-x')
        Img::from_fn(self.h, self.w, |x, y| self.at(y, self.h - 1 - x))
    }
    fn mirror_lr(&self) -> Img {
        Img::from_fn(self.w, self.h, |x, y| self.at(self.w - 1 - x, y))
    }
    fn mirror_tb(&self) -> Img {
        Img::from_fn(self.w, self.h, |x, y| self.at(x, self.h - 1 - y))
    }
}

#[derive(Clone, Copy, Debug, PartialEq, Eq)]
enum G {
    R(u8),
    H,
    V,
}
const GENS: [G; 6] = [G::R(0), G::R(1), G::R(2), G::R(3), G::H, G::V];
fn rot_of(k: u8) -> Rotation {
    [Rotation::Deg0, Rotation::Deg90, Rotation::Deg180, Rotation::Deg270][k as usize]
}
fn apply_g(o: Orientation, g: G) -> Orientation {
    match g {
        G::R(k) => o.rotate(rot_of(k)),
        G::H => o.flip_horizontal(),
        G::V => o.flip_vertical(),
    }
}
fn img_g(i: &Img, g: G) -> Img {
    match g {
        G::R(k) => {
            let mut r = i.clone();
            for _ in 0..k {
                r = r.rot_cw();
            }
            r
        }
        G::H => i.mirror_lr(),
        G::V => i.mirror_tb(),
    }
}

/// Picture on the panel (framebuffer cells of the window) after drawing `img`
/// on a display configured with `o`.
fn picture(model: ModelId, o: Ori, img: &Img) -> Result<Vec<Option<u32>>, String> {
    picture_via(model, o, None, img)
}

/// `then`: build with `o`, then switch to that orientation at run time with
/// set_orientation (the way `display.orientation().rotate(..)` is used in practice).
fn picture_via(model: ModelId, o: Ori, then: Option<Ori>, img: &Img) -> Result<Vec<Option<u32>>, String> {
    let mut cfg = DispCfg::full(model, Tr::L1S);
    cfg.ori = o;
    let Opened::Ready(mut s) = Session::open(&cfg) else { return Err("init failed".into()) };
    if let Some(t) = then {
        let rep = s.step(&Op::SetOrientation(t));
        if rep.result != CallResult::Ok {
            return Err(format!("set_orientation: {:?}", rep.result));
        }
    }
    let sz = s.rig.size();
    if (sz.0 as usize, sz.1 as usize) != (img.w, img.h) {
        return Err(format!("display reports size {:?} for {}, image is {}x{}", sz, o.name(), img.w, img.h));
    }
    let pixels: Vec<(i32, i32, u32)> = (0..img.h).flat_map(|y| (0..img.w).map(move |x| (x, y))).map(|(x, y)| (x as i32, y as i32, img.at(x, y))).collect();
    // fill_contiguous over the whole area (one window), independent of batching
    let op = Op::FillContiguous {
        rect: crate::ops::Rect { x: 0, y: 0, w: img.w as u32, h: img.h as u32 },
        colors: crate::ops::Stream::Explicit(pixels.iter().map(|p| p.2).collect()),
    };
    let rep = s.step(&op);
    if rep.result != CallResult::Ok {
        return Err(format!("{:?}", rep.result));
    }
    let (fw, fh) = model.fb();
    let mut out = Vec::new();
    for y in 0..fh as u32 {
        for x in 0..fw as u32 {
            out.push(s.panel.mem.get(x, y));
        }
    }
    Ok(out)
}

pub fn c15(args: &Args) -> Acc {
    let mut total = Acc::new();
    // (a) geometric: words over the generators, through a real Display
    if args.want_stage("words") {
        let maxlen = if args.quick() { 3 } else { 4 };
        let mut words: Vec<Vec<G>> = vec![vec![]];
        let mut frontier: Vec<Vec<G>> = vec![vec![]];
        for _ in 0..maxlen {
            let mut nf = Vec::new();
            for w in &frontier {
                for g in GENS {
                    let mut x = w.clone();
                    x.push(g);
                    nf.push(x);
                }
            }
            words.extend(nf.iter().cloned());
            frontier = nf;
        }
        let models = [ModelId::Ext7x5, ModelId::Ext2x3];
        let n = (words.len() * 8 * models.len()) as u64;
        let acc = par_cases(n, args.threads, args.case, |idx, a| {
            let w = &words[(idx as usize / 16) % words.len()];
            let o0 = Ori((idx % 8) as u8);
            let model = models[((idx / 8) % 2) as usize];
            let case = || J::obj().with("start", o0.name()).with("word", w.iter().map(|g| format!("{:?}", g)).collect::<Vec<_>>()).with("model", model.name());
            // API side
            let mut o = to_orientation(o0);
            for g in w {
                match guarded(|| apply_g(o, *g)) {
                    Ok(n) => o = n,
                    Err(c) => {
                        a.violate("words", idx, "api/panic", format!("{:?}", c), case());
                        return;
                    }
                }
            }
            let composed = from_orientation(o);
            // image for the composed orientation
            let (fw, fh) = model.fb();
            let (lw, lh) = if composed.rot() & 1 == 0 { (fw as usize, fh as usize) } else { (fh as usize, fw as usize) };
            let img = Img::tagged(lw, lh);
            // pre-transform: extending o by g shows the picture of g(I) under o, so a word
            // g1 g2 .. gn applied left to right pre-transforms innermost-last
            let mut pre = img.clone();
            for g in w.iter().rev() {
                pre = img_g(&pre, *g);
            }
            a.case(&format!("{}/{:?}/{:?}", o0.0, w, model), !w.is_empty());
            let p1 = picture(model, composed, &img);
            let p2 = picture(model, o0, &pre);
            match (p1, p2) {
                (Ok(x), Ok(y)) => {
                    a.count("pictures_compared", 1);
                    if x != y {
                        a.violate(
                            "words",
                            idx,
                            format!("picture/{}", w.iter().map(|g| format!("{:?}", g)).collect::<Vec<_>>().join(".")),
                            format!("orientation {} extended by {:?} gives {}; its picture differs from the pre-transformed image drawn under {}", o0.name(), w, composed.name(), o0.name()),
                            case(),
                        );
                    }
                }
                (Err(e), _) | (_, Err(e)) => a.violate("words", idx, "picture/draw-failed", e, case()),
            }
            // the same composed orientation reached at run time from the start orientation
            if !w.is_empty() {
                let p3 = picture_via(model, o0, Some(composed), &img);
                let p2 = picture(model, o0, &pre);
                match (p3, p2) {
                    (Ok(x), Ok(y)) => {
                        a.count("pictures_compared_runtime_set_orientation", 1);
                        if x != y {
                            a.violate(
                                "words",
                                idx,
                                format!("picture-runtime/{}", w.iter().map(|g| format!("{:?}", g)).collect::<Vec<_>>().join(".")),
                                format!("display built with {} and switched with set_orientation to {} ({:?} applied): picture differs from the pre-transformed image under {}", o0.name(), composed.name(), w, o0.name()),
                                case(),
                            );
                        }
                    }
                    (Err(e), _) | (_, Err(e)) => a.violate("words", idx, "picture-runtime/draw-failed", e, case()),
                }
            }
            if idx % 1777 == 3 {
                a.sample(case().with("composed", composed.name()));
            }
        });
        total.merge(acc);
        // algebraic laws on API values
        let mut a = Acc::new();
        for o in 0..8u8 {
            let x = to_orientation(Ori(o));
            let q = Rotation::Deg90;
            let laws: Vec<(&str, bool)> = vec![
                ("four-quarter-turns", x.rotate(q).rotate(q).rotate(q).rotate(q) == x),
                ("double-flip-h", x.flip_horizontal().flip_horizontal() == x),
                ("double-flip-v", x.flip_vertical().flip_vertical() == x),
                ("h-then-v-is-half-turn", x.flip_horizontal().flip_vertical() == x.rotate(Rotation::Deg180)),
                ("v-then-h-is-half-turn", x.flip_vertical().flip_horizontal() == x.rotate(Rotation::Deg180)),
            ];
            for (name, ok) in laws {
                a.case(&format!("law/{}/{}", name, o), true);
                if !ok {
                    a.violate("laws", o as u64, format!("law/{}", name), format!("fails for {}", Ori(o).name()), J::obj().with("orientation", Ori(o).name()));
                }
            }
            for r1 in 0..4u8 {
                for r2 in 0..4u8 {
                    a.case(&format!("rot-add/{}/{}/{}", o, r1, r2), true);
                    let got = rot_of(r1).rotate(rot_of(r2));
                    if got != rot_of((r1 + r2) % 4) || got.degree() != ((r1 as i32 + r2 as i32) * 90) % 360 {
                        a.violate("laws", 0, "law/rotations-add-mod-360", format!("{:?} + {:?} = {:?}", rot_of(r1), rot_of(r2), got), J::Null);
                    }
                }
            }
        }
        total.merge(a);
    }
    // (b) all 2^32 angles
    if args.want_stage("angles") {
        let shards = 4096u64;
        let per = (1u64 << 32) / shards;
        let acc = par_cases(shards, args.threads, args.case, |idx, a| {
            let lo = idx * per;
            let r = guarded(|| {
                let mut bad: Option<(i32, String)> = None;
                let mut oks = 0u64;
                for u in lo..lo + per {
                    let angle = u as u32 as i32;
                    let got = Rotation::try_from_degree(angle);
                    let m = (angle as i64).rem_euclid(360);
                    let want = match m {
                        0 => Some(Rotation::Deg0),
                        90 => Some(Rotation::Deg90),
                        180 => Some(Rotation::Deg180),
                        270 => Some(Rotation::Deg270),
                        _ => None,
                    };
                    if got.ok() != want {
                        if bad.is_none() {
                            bad = Some((angle, format!("try_from_degree({}) = {:?}, want {:?}", angle, got, want)));
                        }
                    } else if want.is_some() {
                        oks += 1;
                    }
                }
                (bad, oks)
            });
            a.count("angles_checked", per);
            match r {
                Ok((None, oks)) => a.count("angles_accepted", oks),
                Ok((Some((angle, d)), _)) => a.violate("angles", idx, "try_from_degree/wrong-result", d, J::obj().with("angle", angle)),
                Err(c) => a.violate("angles", idx, "try_from_degree/panic", format!("{:?} somewhere in angles {}..{}", c, lo as u32 as i32, (lo + per - 1) as u32 as i32), J::obj().with("range", vec![lo, lo + per])),
            }
            a.case(&format!("angles/{}", idx), true);
        });
        total.merge(acc);
        total.notes.insert("exhaustive_angles".into(), J::Str("all 2^32 i32 angles".into()));
    }
    total.notes.insert("rule".into(), J::Str("words: case = (start orientation, word over rotate 0/90/180/270, flip_horizontal, flip_vertical, non-square model); angles: case = a 2^20-angle shard of the i32 range; distinct = canonical description; non-trivial = non-empty word / any shard".into()));
    total
}

// ------------------------------------------------------------------ C16

fn scroll_models() -> Vec<ModelId> {
    // every distinct built-in framebuffer height + extremes
    vec![ModelId::GC9107 /*160*/, ModelId::ST7735s /*162*/, ModelId::GC9A01 /*240*/, ModelId::ILI9341Rgb565 /*320*/, ModelId::ILI9486Rgb565 /*480*/, ModelId::RM67162 /*536*/, ModelId::Ext65535x1 /*1*/, ModelId::Ext1x65535 /*65535*/, ModelId::ILI9342CRgb666, ModelId::ST7789, ModelId::ST7796, ModelId::ILI9488Rgb666]
}

fn check_scroll(a: &mut Acc, stage: &str, idx: u64, s: &mut Session, fh: u64, top: u16, bottom: u16, cfg: &DispCfg) -> bool {
    let rep = s.step(&Op::ScrollRegion(top, bottom));
    let case = || J::obj().with("config", cfg.to_json()).with("top", top).with("bottom", bottom).with("framebuffer_height", fh);
    let sum = top as u64 + bottom as u64;
    let class = if sum <= fh { "fits" } else if sum <= 65535 { "exceeds-height" } else { "exceeds-u16" };
    match &rep.result {
        CallResult::Ok => {}
        CallResult::Panic { msg, loc } => {
            a.violate(stage, idx, format!("scroll_region/panic@{}[{}]", loc, class), msg.clone(), case());
            return false;
        }
        other => {
            a.violate(stage, idx, format!("scroll_region/failed[{}]", class), format!("{:?}", other), case());
            return false;
        }
    }
    let cmds: Vec<&PEv> = rep.log.iter().filter(|e| matches!(e, PEv::Cmd { .. })).collect();
    if cmds.len() != 1 {
        a.violate(stage, idx, "scroll_region/command-count", format!("{} commands", cmds.len()), case());
        return false;
    }
    if let PEv::Cmd { op, params, .. } = cmds[0] {
        if *op != 0x33 || params.len() != 6 {
            a.violate(stage, idx, "scroll_region/wrong-command", format!("{:#04x} with {} params", op, params.len()), case());
            return false;
        }
        let f = |i: usize| (params[i] as u64) << 8 | params[i + 1] as u64;
        let (tfa, vsa, bfa) = (f(0), f(2), f(4));
        if tfa + vsa + bfa != fh {
            a.violate(stage, idx, format!("scroll_region/sum[{}]", class), format!("top {} + scroll {} + bottom {} = {} != framebuffer height {}", tfa, vsa, bfa, tfa + vsa + bfa, fh), case());
            return false;
        }
        if sum <= fh && (tfa != top as u64 || bfa != bottom as u64) {
            a.violate(stage, idx, "scroll_region/not-passed-through", format!("fixed areas ({}, {}) fit but ({}, {}) were sent", top, bottom, tfa, bfa), case());
            return false;
        }
    }
    a.count(&format!("scroll_region_checked[{}]", class), 1);
    true
}

/// `set_vertical_scroll_offset` sends 0x37 with the offset unchanged, big-endian, whatever scroll
/// region was defined before.
fn check_offset(a: &mut Acc, stage: &str, idx: u64, s: &mut Session, off: u16, region: Option<(u16, u16)>, cfg: &DispCfg) -> bool {
    let rep = s.step(&Op::ScrollOffset(off));
    let cmds: Vec<&PEv> = rep.log.iter().filter(|e| matches!(e, PEv::Cmd { .. })).collect();
    let ok = rep.result == CallResult::Ok
        && cmds.len() == 1
        && matches!(cmds[0], PEv::Cmd { op: 0x37, params, .. } if params.len() == 2 && params[0] == (off >> 8) as u8 && params[1] == off as u8);
    if !ok {
        let mut case = J::obj().with("config", cfg.to_json()).with("offset", off);
        if let Some((t, b)) = region {
            case = case.with("region_top", t).with("region_bottom", b);
        }
        a.violate(stage, idx, if region.is_some() { "scroll_offset/encoding[after-region]" } else { "scroll_offset/encoding" }, format!("offset {}: result {:?}, trace {:?}", off, rep.result, cmds), case);
        return false;
    }
    a.count("scroll_offsets_checked", 1);
    true
}

/// The scroll set-up depends on the framebuffer height only: vary everything else (colour and
/// refresh order, inversion, a window smaller than the framebuffer, the builder call order).
fn c16_vary(cfg: &mut DispCfg, h: u64) {
    cfg.bgr = h & 1 == 1;
    cfg.refresh = ((h >> 1) % 4) as u8;
    cfg.invert = (h >> 3) & 1 == 1;
    cfg.rst = (h >> 4) & 1 == 1;
    cfg.order = if (h >> 5) & 1 == 1 { 0 } else { ((h >> 6) % 10_080) as u16 };
    if (h >> 20) % 3 != 0 {
        let (fw, fh) = cfg.model.fb();
        let w = 1 + ((h >> 22) % fw as u64) as u16;
        let hh = 1 + ((h >> 38) % fh as u64) as u16;
        cfg.w = w;
        cfg.h = hh;
        cfg.ox = (((h >> 30) % (fw - w + 1) as u64)) as u16;
        cfg.oy = (((h >> 46) % (fh - hh + 1) as u64)) as u16;
    }
}

pub fn c16(args: &Args) -> Acc {
    let mut total = Acc::new();
    let models = scroll_models();
    if args.want_stage("boundary") {
        let acc = par_cases(models.len() as u64 * 8, args.threads, args.case, |idx, a| {
            let m = models[(idx / 8) as usize];
            let mut cfg = DispCfg::full(m, if idx % 3 == 0 || !m.supports(Tr::L1S.kind()) { Tr::L1P8 } else { Tr::L1S });
            cfg.ori = Ori((idx % 8) as u8);
            c16_vary(&mut cfg, crate::prng::hash_str(&format!("C16/boundary/{}/{}", args.seed, idx)));
            // every fourth configuration through the real SPI transport with a very small staging
            // buffer (the 6 parameter bytes of the scroll definition are longer than it)
            if idx % 4 == 1 && m.supports(crate::rig::Kind::Serial) {
                cfg.tr = Tr::Spi;
                cfg.spi_buf = [4usize, 5, 3, 7][(idx as usize / 4) % 4].max(if m.bits() == 16 { 2 } else { 3 });
            }
            let fh = m.fb().1 as u64;
            let Opened::Ready(mut s) = Session::open(&cfg) else {
                a.violate("boundary", idx, "init", "init failed".to_string(), cfg.to_json());
                return;
            };
            // every third configuration is asleep while the scroll calls are made (they must still be sent)
            if idx % 3 == 2 {
                let _ = s.step(&Op::Sleep);
                a.count("configurations_scrolled_while_asleep", 1);
            }
            a.seen("heights", format!("{}", fh));
            a.seen("orientations", cfg.ori.name());
            let mut vals: Vec<u64> = vec![0, 1, 2, 3, 255, 256, 257, 32767, 32768, 32769, 40000, 65533, 65534, 65535];
            for d in [0i64, 1, 2, 3] {
                for base in [fh as i64, fh as i64 / 2, 65535 - fh as i64, 65536 - fh as i64, 65536 / 2] {
                    for sgn in [-1i64, 1] {
                        let v = base + sgn * d;
                        if (0..=65535).contains(&v) {
                            vals.push(v as u64);
                        }
                    }
                }
            }
            vals.sort_unstable();
            vals.dedup();
            for &t in &vals {
                for &b in &vals {
                    a.case_hash((idx << 40) | (t << 20) | b, true);
                    if !check_scroll(a, "boundary", idx, &mut s, fh, t as u16, b as u16, &cfg) {
                        return;
                    }
                }
                // complements: top + bottom in {fh-1, fh, fh+1, 65535, 65536, 65537}
                for target in [fh.saturating_sub(1), fh, fh + 1, 65535, 65536, 65537] {
                    if target >= t && target - t <= 65535 {
                        a.case_hash((idx << 40) | (t << 20) | (target - t) | 1 << 39, true);
                        if !check_scroll(a, "boundary", idx, &mut s, fh, t as u16, (target - t) as u16, &cfg) {
                            return;
                        }
                    }
                }
            }
            // offsets: all 65536, under the scroll definition left by the sweep above and under
            // definitions that fit (non-empty scroll area, empty scroll area, no fixed areas): the
            // offset is sent unchanged whatever region was set before
            let fhc = fh.min(65535) as u16;
            let regions: [Option<(u16, u16)>; 5] = [None, Some((fhc / 4, fhc / 4)), Some((0, 0)), Some((1, fhc.saturating_sub(2))), Some((fhc, 0))];
            for (ri, region) in regions.iter().enumerate() {
                if let Some((t, b)) = region {
                    if !check_scroll(a, "boundary", idx, &mut s, fh, *t, *b, &cfg) {
                        return;
                    }
                }
                // the full sweep under the first two states, every 7th offset plus the edges of the scroll area under the others
                for off in 0..=65535u16 {
                    if ri >= 2 {
                        let (t, b) = region.unwrap();
                        let near = |x: u64| (off as u64).abs_diff(x) <= 3;
                        if !(off % 7 == (idx % 7) as u16 || near(0) || near(t as u64) || near(fh.saturating_sub(b as u64)) || near(fh) || near(65535)) {
                            continue;
                        }
                    }
                    if !check_offset(a, "boundary", idx, &mut s, off, *region, &cfg) {
                        return;
                    }
                }
                a.seen("offset_sweeps_after_region", match region { None => "exceeding".to_string(), Some((t, b)) => format!("top {} bottom {} of {}", t, b, fh) });
            }
            if idx % 8 == 0 {
                a.sample(J::obj().with("config", cfg.to_json()).with("boundary_values", vals.len()).with("offsets", 65536));
            }
        });
        total.merge(acc);
    }
    // "never panics" also on the error path: tens of thousands of scroll calls that fail on the
    // bus, each reported as an error, then the definition is still sent correctly
    if args.want_stage("failing-bus") && !crate::small() {
        let acc = par_cases(4, args.threads, args.case, |idx, a| {
            let m = [ModelId::ST7789, ModelId::ILI9486Rgb565, ModelId::GC9107, ModelId::Ext1x65535][idx as usize];
            let tr = [Tr::L1S, Tr::P8, Tr::Spi, Tr::L1P16][idx as usize];
            let mut cfg = DispCfg::full(m, tr);
            cfg.spi_buf = 8;
            cfg.ori = Ori((idx * 3 % 8) as u8);
            let fh = m.fb().1 as u64;
            let Opened::Ready(mut s) = Session::open(&cfg) else {
                a.violate("failing-bus", idx, "init", "init failed".to_string(), cfg.to_json());
                return;
            };
            a.case(&format!("failing-bus/{}/{}", m.name(), tr.name()), true);
            for i in 0..65_540u64 {
                let op = if i % 2 == 0 { Op::ScrollRegion((i % 300) as u16, 65_535 - (i % 7) as u16) } else { Op::ScrollOffset(i as u16) };
                let r = s.step_with(&op, Some(0));
                match &r.result {
                    CallResult::Err(_) => a.count("scroll_calls_failing_on_the_bus", 1),
                    CallResult::Panic { msg, loc } => {
                        a.violate("failing-bus", idx, format!("{}/panic@{}[failing-bus]", op.name(), loc), format!("failing call number {}: {}", i + 1, msg), cfg.to_json());
                        return;
                    }
                    other => {
                        a.violate("failing-bus", idx, format!("{}/failure-not-reported", op.name()), format!("failing call number {} returned {:?}", i + 1, other), cfg.to_json());
                        return;
                    }
                }
            }
            check_scroll(a, "failing-bus", idx, &mut s, fh, 3, 4, &cfg);
        });
        total.merge(acc);
    }
    if args.want_stage("random") {
        let n = args.n(64, 64);
        let per = if args.quick() { 40_000u64 } else { 2_000_000 };
        let acc = par_cases(n * models.len() as u64, args.threads, args.case, |idx, a| {
            let m = models[(idx % models.len() as u64) as usize];
            let mut rng = Rng::for_case(args.seed, "C16/random", &args.tier, idx);
            let mut cfg = DispCfg::full(m, if m.supports(Tr::L1S.kind()) { Tr::L1S } else { Tr::L1P8 });
            cfg.ori = Ori(rng.below(8) as u8);
            c16_vary(&mut cfg, rng.next());
            let fh = m.fb().1 as u64;
            let Opened::Ready(mut s) = Session::open(&cfg) else {
                a.inconclusive("C16/random: init failed");
                return;
            };
            for _ in 0..per {
                let (t, b) = match rng.below(4) {
                    0 => (rng.next() as u16, rng.next() as u16),
                    1 => {
                        let t = rng.range(0, fh.min(65535) as i64) as u16;
                        (t, (fh as i64 - t as i64 + rng.range(-2, 2)).clamp(0, 65535) as u16)
                    }
                    2 => {
                        let t = rng.next() as u16;
                        (t, (65536 - t as i64 + rng.range(-3, fh as i64 + 3)).clamp(0, 65535) as u16)
                    }
                    _ => (rng.range(0, 700) as u16, rng.range(0, 700) as u16),
                };
                a.case_hash((m.ord() << 40) | (t as u64) << 20 | b as u64, true);
                if !check_scroll(a, "random", idx, &mut s, fh, t, b, &cfg) {
                    return;
                }
                // an offset right after the definition: anywhere, or at the edges of the scroll area just defined
                if rng.below(2) == 0 {
                    let off = match rng.below(4) {
                        0 => rng.next() as u16,
                        1 => (t as i64 + rng.range(-2, 2)).clamp(0, 65535) as u16,
                        2 => (fh as i64 - b as i64 + rng.range(-2, 2)).clamp(0, 65535) as u16,
                        _ => (fh as i64 + rng.range(-2, 300)).clamp(0, 65535) as u16,
                    };
                    if !check_offset(a, "random", idx, &mut s, off, Some((t, b)), &cfg) {
                        return;
                    }
                }
            }
        });
        total.merge(acc);
    }
    // thorough: all 2^32 (top, bottom) pairs per height, lean path: a probe Interface that
    // keeps only the last command, no simulator, one catch_unwind per 2^16 calls
    if !args.quick() && args.want_stage("exhaustive") {
        let heights = [ModelId::GC9107, ModelId::ST7735s, ModelId::GC9A01, ModelId::ILI9341Rgb565, ModelId::ILI9486Rgb565, ModelId::RM67162, ModelId::Ext65535x1, ModelId::Ext1x65535];
        let shards = 1024u64;
        let acc = par_cases(heights.len() as u64 * shards, args.threads, args.case, |idx, a| {
            let m = heights[(idx / shards) as usize];
            let shard = idx % shards;
            let r = match m {
                ModelId::GC9107 => scroll_exhaustive::<mipidsi::models::GC9107>(shard, shards),
                ModelId::ST7735s => scroll_exhaustive::<mipidsi::models::ST7735s>(shard, shards),
                ModelId::GC9A01 => scroll_exhaustive::<mipidsi::models::GC9A01>(shard, shards),
                ModelId::ILI9341Rgb565 => scroll_exhaustive::<mipidsi::models::ILI9341Rgb565>(shard, shards),
                ModelId::ILI9486Rgb565 => scroll_exhaustive::<mipidsi::models::ILI9486Rgb565>(shard, shards),
                ModelId::RM67162 => scroll_exhaustive::<mipidsi::models::RM67162>(shard, shards),
                ModelId::Ext65535x1 => scroll_exhaustive::<crate::rig::Ext<65535, 1, embedded_graphics_core::pixelcolor::Rgb565>>(shard, shards),
                _ => scroll_exhaustive::<crate::rig::Ext<1, 65535, embedded_graphics_core::pixelcolor::Rgb565>>(shard, shards),
            };
            match r {
                Ok(n) => {
                    a.count("scroll_region_pairs_exhaustive", n);
                    a.case(&format!("exh/{:?}/{}", m, shard), true);
                }
                Err((t, b, why)) => {
                    let fh = m.fb().1 as u64;
                    let class = if t + b <= fh { "fits" } else if t + b <= 65535 { "exceeds-height" } else { "exceeds-u16" };
                    a.violate("exhaustive", idx, format!("scroll_region/exhaustive[{}]", class), format!("height {} top {} bottom {}: {}", fh, t, b, why), J::obj().with("model", m.name()).with("top", t).with("bottom", b));
                }
            }
        });
        total.merge(acc);
        total.notes.insert("exhaustive".into(), J::Str("all 2^32 (top, bottom) pairs for each of the heights 160, 162, 240, 320, 480, 536, 1, 65535".into()));
    }
    total.notes.insert("rule".into(), J::Str("case = (model height, orientation, top, bottom) or a scroll offset; distinct = (model, top, bottom); all non-trivial".into()));
    total
}

// ------------------------------------------------------------------ C18

const CANARY: u8 = 0xC5;

fn ser<C: DcsCommand>(c: &C) -> Result<(u8, Vec<u8>), String> {
    match guarded(|| ser_inner(c)) {
        Ok(r) => r,
        Err(e) => Err(format!("panicked: {:?}", e)),
    }
}

fn ser_inner<C: DcsCommand>(c: &C) -> Result<(u8, Vec<u8>), String> {
    let mut buf = [CANARY; 24];
    // realistic scratch size is 16; give 24 so that an overrun is observable, not UB/panic-only
    let n = c.fill_params_buf(&mut buf[..16]);
    if n > 16 {
        return Err(format!("reported length {}", n));
    }
    for (i, b) in buf.iter().enumerate().skip(n) {
        if *b != CANARY {
            return Err(format!("byte {} beyond the reported length {} was modified", i, n));
        }
    }
    Ok((c.instruction(), buf[..n].to_vec()))
}

/// what write_command puts on the bus; a panic inside the driver is reported as a wire anomaly
/// marker so that the comparison fails with a readable message
fn via_bus<C: DcsCommand>(c: C) -> Vec<BusEv> {
    let tl = Tl::new(8);
    let mut di = L1::<u8, KSerial>::new(&tl);
    match guarded(|| di.write_command(c)) {
        Ok(Ok(())) => tl.take_bus(),
        Ok(Err(_)) => vec![BusEv::Wire(crate::hal::WireAnomaly::SpiOtherOp("write_command returned an error"))],
        Err(_) => vec![BusEv::Wire(crate::hal::WireAnomaly::SpiOtherOp("write_command panicked"))],
    }
}

fn expect_cmd(a: &mut Acc, name: &str, idx: u64, got: Result<(u8, Vec<u8>), String>, bus: Vec<BusEv>, opcode: u8, params: &[u8], case: J) {
    a.count("commands_serialised", 1);
    match got {
        Err(e) => a.violate("cmds", idx, format!("{}/buffer", name), e, case),
        Ok((op, p)) => {
            if op != opcode {
                a.violate("cmds", idx, format!("{}/opcode", name), format!("instruction() = {:#04x}, MIPI opcode is {:#04x}", op, opcode), case);
            } else if p != params {
                a.violate("cmds", idx, format!("{}/params", name), format!("parameters {:02x?}, expected {:02x?}", p, params), case);
            } else {
                let mut want = vec![BusEv::Cmd(opcode)];
                if !params.is_empty() {
                    want.push(BusEv::Data(params.iter().map(|b| *b as u16).collect()));
                }
                if bus != want {
                    a.violate("cmds", idx, format!("{}/write_command", name), format!("bus saw {:?}, expected {:?}", bus, want), case);
                }
            }
        }
    }
}

/// A command type defined by the user of the crate (vendor commands, gamma tables ...): the
/// trait is public, and `write_command` promises its 16-byte scratch buffer to every implementor.
struct UserCmd {
    ins: u8,
    params: Vec<u8>,
}
impl DcsCommand for UserCmd {
    fn instruction(&self) -> u8 {
        self.ins
    }
    fn fill_params_buf(&self, buffer: &mut [u8]) -> usize {
        buffer[..self.params.len()].copy_from_slice(&self.params);
        self.params.len()
    }
}

/// ... and one without any data: a vendor command with constant parameters
struct UnlockCmd;
impl DcsCommand for UnlockCmd {
    fn instruction(&self) -> u8 {
        0xF0
    }
    fn fill_params_buf(&self, buffer: &mut [u8]) -> usize {
        buffer[..3].copy_from_slice(&[0x5A, 0x69, 0x02]);
        3
    }
}

pub fn c18(args: &Args) -> Acc {
    let mut total = Acc::new();
    if args.want_stage("user-commands") {
        let mut a = Acc::new();
        {
            let bus = via_bus(UnlockCmd);
            let want = vec![BusEv::Cmd(0xF0), BusEv::Data(vec![0x5A, 0x69, 0x02])];
            a.case("user/zero-sized", true);
            a.count("user_defined_commands_checked", 1);
            if bus != want {
                a.violate("user-commands", 999, "user-command/write_command[zero-sized type]", format!("bus saw {:?}, expected {:?}", bus, want), J::obj().with("command", "user-defined zero-sized DcsCommand with 3 constant parameter bytes"));
            }
        }
        for n in 0..=16usize {
            for variant in 0..6u8 {
                let ins = 0xB0u8.wrapping_add(n as u8 * 3 + variant);
                let params: Vec<u8> = (0..n).map(|i| (i as u8).wrapping_mul(37).wrapping_add(variant * 11) ^ 0xA5).collect();
                let mut want = vec![BusEv::Cmd(ins)];
                if !params.is_empty() {
                    want.push(BusEv::Data(params.iter().map(|b| *b as u16).collect()));
                }
                let case = || J::obj().with("command", "user-defined DcsCommand").with("instruction", ins).with("params", params.clone()).with("variant", variant);
                a.case(&format!("user/{}/{}", n, variant), true);
                a.count("user_defined_commands_checked", 1);
                // through the recording interface, its `&mut` forwarder, and the real SPI transport
                // with staging buffers from empty to larger than the command
                let bus = match variant {
                    0 => via_bus(UserCmd { ins, params: params.clone() }),
                    1 => {
                        let tl = Tl::new(8);
                        let mut di = L1::<u8, KSerial>::new(&tl);
                        fn by_value<I: InterfaceExt>(mut i: I, c: UserCmd) -> Result<(), I::Error> {
                            i.write_command(c)
                        }
                        match guarded(|| by_value(&mut di, UserCmd { ins, params: params.clone() })) {
                            Ok(Ok(())) => tl.take_bus(),
                            _ => vec![BusEv::Wire(crate::hal::WireAnomaly::SpiOtherOp("write_command panicked or failed"))],
                        }
                    }
                    v => {
                        let tl = Tl::new(8);
                        let mut buf = vec![0x5Au8; [0usize, 1, 5, 64][(v - 2) as usize]];
                        let mut di = mipidsi::interface::SpiInterface::new(tl.spi(), tl.pin(crate::hal::Src::Dc), &mut buf[..]);
                        match guarded(|| di.write_command(UserCmd { ins, params: params.clone() })) {
                            Ok(Ok(())) => tl.take_bus(),
                            _ => vec![BusEv::Wire(crate::hal::WireAnomaly::SpiOtherOp("write_command panicked or failed"))],
                        }
                    }
                };
                // the SPI decoder may split the data; compare the flattened words
                let flat = |evs: &[BusEv]| -> Vec<(bool, u16)> {
                    let mut v = Vec::new();
                    for e in evs {
                        match e {
                            BusEv::Cmd(c) => v.push((true, *c as u16)),
                            BusEv::Data(d) => v.extend(d.iter().map(|w| (false, *w))),
                            BusEv::Delay(_) => {}
                            other => v.push((true, 0xFFFF ^ (format!("{:?}", other).len() as u16))),
                        }
                    }
                    v
                };
                if flat(&bus) != flat(&want) {
                    a.violate("user-commands", (n * 6) as u64 + variant as u64, format!("user-command/write_command[{}-bytes]", n), format!("bus saw {:?}, expected {:?}", bus, want), case());
                }
            }
        }
        total.merge(a);
    }
    if args.want_stage("cmds") {
        let mut a = Acc::new();
        macro_rules! basic {
            ($t:ident, $op:expr) => {{
                a.case(stringify!($t), true);
                expect_cmd(&mut a, stringify!($t), 0, ser(&dcs::$t), via_bus(dcs::$t), $op, &[], J::obj().with("command", stringify!($t)));
            }};
        }
        basic!(SoftReset, spec::opcode::SOFT_RESET);
        basic!(EnterSleepMode, spec::opcode::ENTER_SLEEP);
        basic!(ExitSleepMode, spec::opcode::EXIT_SLEEP);
        basic!(EnterPartialMode, spec::opcode::ENTER_PARTIAL);
        basic!(EnterNormalMode, spec::opcode::ENTER_NORMAL);
        basic!(SetDisplayOff, spec::opcode::DISPLAY_OFF);
        basic!(SetDisplayOn, spec::opcode::DISPLAY_ON);
        basic!(ExitIdleMode, spec::opcode::EXIT_IDLE);
        basic!(EnterIdleMode, spec::opcode::ENTER_IDLE);
        basic!(WriteMemoryStart, spec::opcode::WRITE_MEMORY_START);
        // enums
        for (te, op, params) in [
            (TearingEffect::Off, spec::opcode::TEAR_OFF, vec![]),
            (TearingEffect::Vertical, spec::opcode::TEAR_ON, vec![0u8]),
            (TearingEffect::HorizontalAndVertical, spec::opcode::TEAR_ON, vec![1u8]),
        ] {
            a.case(&format!("tear/{:?}", te), true);
            let c = dcs::SetTearingEffect::new(te);
            expect_cmd(&mut a, "SetTearingEffect", 0, ser(&c), via_bus(c), op, &params, J::obj().with("command", format!("SetTearingEffect({:?})", te)));
        }
        for (inv, op) in [(ColorInversion::Normal, spec::opcode::EXIT_INVERT), (ColorInversion::Inverted, spec::opcode::ENTER_INVERT)] {
            a.case(&format!("invert/{:?}", inv), true);
            let c = dcs::SetInvertMode::new(inv);
            expect_cmd(&mut a, "SetInvertMode", 0, ser(&c), via_bus(c), op, &[], J::obj().with("command", format!("SetInvertMode({:?})", inv)));
        }
        use dcs::BitsPerPixel as B;
        let bpps = [(B::Three, 1u8), (B::Eight, 2), (B::Twelve, 3), (B::Sixteen, 5), (B::Eighteen, 6), (B::TwentyFour, 7)];
        for (dpi, dv) in bpps {
            for (dbi, bv) in bpps {
                a.case(&format!("pf/{}/{}", dv, bv), true);
                let c = dcs::SetPixelFormat::new(dcs::PixelFormat::new(dpi, dbi));
                expect_cmd(&mut a, "SetPixelFormat", 0, ser(&c), via_bus(c), spec::opcode::SET_PIXEL_FORMAT, &[dv << 4 | bv], J::obj().with("command", format!("SetPixelFormat(dpi {:?}, dbi {:?})", dpi, dbi)));
            }
            let c = dcs::SetPixelFormat::new(dcs::PixelFormat::with_all(dpi));
            a.case(&format!("pf-all/{}", dv), true);
            expect_cmd(&mut a, "SetPixelFormat", 0, ser(&c), via_bus(c), spec::opcode::SET_PIXEL_FORMAT, &[dv << 4 | dv], J::obj().with("command", format!("SetPixelFormat(with_all {:?})", dpi)));
        }
        // all scroll starts
        for v in 0..=65535u16 {
            let c = dcs::SetScrollStart::new(v);
            a.case_hash(0x5500_0000 | v as u64, true);
            expect_cmd(&mut a, "SetScrollStart", v as u64, ser(&c), via_bus(c), spec::opcode::SET_SCROLL_START, &spec::be16(v), J::obj().with("command", format!("SetScrollStart({})", v)));
        }
        // scroll area: boundary cube
        let bv = [0u16, 1, 255, 256, 0x1234, 0xFF00, 65535];
        for t in bv {
            for v in bv {
                for b in bv {
                    let c = dcs::SetScrollArea::new(t, v, b);
                    a.case_hash(0x3300_0000_0000 | (t as u64) << 32 | (v as u64) << 16 | b as u64, true);
                    let mut p = Vec::new();
                    p.extend(spec::be16(t));
                    p.extend(spec::be16(v));
                    p.extend(spec::be16(b));
                    expect_cmd(&mut a, "SetScrollArea", 0, ser(&c), via_bus(c), spec::opcode::SET_SCROLL_AREA, &p, J::obj().with("command", format!("SetScrollArea({}, {}, {})", t, v, b)));
                }
            }
        }
        a.sample(J::obj().with("command", "SetScrollStart(0x1234)").with("bytes", vec![0x37u8, 0x12, 0x34]));
        total.merge(a);
    }
    if args.want_stage("random") {
        let n = args.n(64, 256);
        let per = if args.quick() { 60_000 } else { 600_000 };
        let acc = par_cases(n, args.threads, args.case, |idx, a| {
            let mut rng = Rng::for_case(args.seed, "C18/random", &args.tier, idx);
            for k in 0..per {
                match k % 3 {
                    0 => {
                        let (t, v, b) = (rng.next() as u16, rng.next() as u16, rng.next() as u16);
                        let c = dcs::SetScrollArea::new(t, v, b);
                        a.case_hash((t as u64) << 32 | (v as u64) << 16 | b as u64, true);
                        let mut p = Vec::new();
                        p.extend(spec::be16(t));
                        p.extend(spec::be16(v));
                        p.extend(spec::be16(b));
                        expect_cmd(a, "SetScrollArea", idx, ser(&c), via_bus(c), 0x33, &p, J::obj().with("command", format!("SetScrollArea({}, {}, {})", t, v, b)));
                    }
                    1 => {
                        // write_raw with random instruction and 0..64 parameter bytes
                        let ins = rng.next() as u8;
                        let plen = if rng.chance(1, 8) { rng.range(65, 300) } else { rng.range(0, 64) } as usize;
                        let params: Vec<u8> = (0..plen).map(|_| rng.next() as u8).collect();
                        let tl = Tl::new(8);
                        let mut di = L1::<u8, KSerial>::new(&tl);
                        let bus = match guarded(|| di.write_raw(ins, &params)) {
                            Ok(Ok(())) => tl.take_bus(),
                            _ => vec![BusEv::Wire(crate::hal::WireAnomaly::SpiOtherOp("write_raw panicked or failed"))],
                        };
                        let mut want = vec![BusEv::Cmd(ins)];
                        if !params.is_empty() {
                            want.push(BusEv::Data(params.iter().map(|b| *b as u16).collect()));
                        }
                        a.case_hash(0xAA00_0000_0000_0000 | (ins as u64) << 8 | plen as u64 | rng.next() << 20, true);
                        a.count("write_raw_checked", 1);
                        if bus != want {
                            a.violate("random", idx, "write_raw/bytes", format!("bus saw {:?}, expected {:?}", bus, want), J::obj().with("instruction", ins).with("params", params));
                        }
                    }
                    _ => {
                        let (s, e) = (rng.next() as u16, rng.next() as u16);
                        let mut p = Vec::new();
                        p.extend(spec::be16(s));
                        p.extend(spec::be16(e));
                        a.case_hash(0x2A00_0000_0000 | (s as u64) << 16 | e as u64, true);
                        let c = dcs::SetColumnAddress::new(s, e);
                        expect_cmd(a, "SetColumnAddress", idx, ser(&c), via_bus(c), 0x2A, &p, J::obj().with("command", format!("SetColumnAddress({}, {})", s, e)));
                        let c = dcs::SetPageAddress::new(s, e);
                        expect_cmd(a, "SetPageAddress", idx, ser(&c), via_bus(c), 0x2B, &p, J::obj().with("command", format!("SetPageAddress({}, {})", s, e)));
                    }
                }
            }
        });
        total.merge(acc);
    }
    // all 2^32 (start, end) pairs for both address commands
    if args.want_stage("address-exhaustive") {
        let shards = 1024u64;
        let per = 65536 / shards;
        let acc = par_cases(shards, args.threads, args.case, |idx, a| {
            let mut buf = [CANARY; 16];
            let r = guarded(|| {
            for s in (idx * per)..((idx + 1) * per) {
                let s = s as u16;
                for e in 0..=65535u16 {
                    for which in 0..2 {
                        buf[..5].fill(CANARY);
                        let (n, op) = if which == 0 {
                            let c = dcs::SetColumnAddress::new(s, e);
                            (c.fill_params_buf(&mut buf), c.instruction())
                        } else {
                            let c = dcs::SetPageAddress::new(s, e);
                            (c.fill_params_buf(&mut buf), c.instruction())
                        };
                        let ok = n == 4
                            && op == if which == 0 { 0x2A } else { 0x2B }
                            && buf[0] == (s >> 8) as u8
                            && buf[1] == s as u8
                            && buf[2] == (e >> 8) as u8
                            && buf[3] == e as u8
                            && buf[4] == CANARY;
                        if !ok {
                            return Some((which, s, e, op, n, buf));
                        }
                    }
                }
            }
            None
            });
            match r {
                Ok(None) => {}
                Ok(Some((which, s, e, op, n, buf))) => {
                    a.violate(
                        "address-exhaustive",
                        idx,
                        format!("{}/encoding", if which == 0 { "SetColumnAddress" } else { "SetPageAddress" }),
                        format!("({}, {}): opcode {:#04x} n {} bytes {:02x?}", s, e, op, n, &buf[..5]),
                        J::obj().with("start", s).with("end", e),
                    );
                    return;
                }
                Err(c) => {
                    a.violate("address-exhaustive", idx, "address-command/panic", format!("{:?}", c), J::obj().with("shard", idx));
                    return;
                }
            }
            a.count("address_pairs_checked_each_command", per * 65536);
            a.case(&format!("addr/{}", idx), true);
        });
        total.merge(acc);
        total.notes.insert("exhaustive".into(), J::Str("all 2^32 (start, end) pairs for SetColumnAddress and SetPageAddress; all 65,536 scroll starts; all enum variants; all 36 pixel formats".into()));
    }
    total.notes.insert("rule".into(), J::Str("case = one command value (or a 2^22-pair shard of the address-command space); distinct by value; all non-trivial".into()));
    total
}


/// Interface that remembers only the last command (for the exhaustive scroll sweep).
pub struct Probe {
    op: u8,
    n: usize,
    p: [u8; 16],
    calls: u64,
}
impl mipidsi::interface::Interface for Probe {
    type Word = u8;
    type Error = core::convert::Infallible;
    const KIND: mipidsi::interface::InterfaceKind = mipidsi::interface::InterfaceKind::Parallel8Bit;
    fn send_command(&mut self, command: u8, args: &[u8]) -> Result<(), Self::Error> {
        self.op = command;
        self.n = args.len();
        let k = args.len().min(16);
        self.p[..k].copy_from_slice(&args[..k]);
        self.calls += 1;
        Ok(())
    }
    fn send_pixels<const N: usize>(&mut self, _pixels: impl IntoIterator<Item = [u8; N]>) -> Result<(), Self::Error> {
        self.calls += 1;
        Ok(())
    }
    fn send_repeated_pixel<const N: usize>(&mut self, _pixel: [u8; N], _count: u32) -> Result<(), Self::Error> {
        self.calls += 1;
        Ok(())
    }
}

struct NoDelay;
impl embedded_hal::delay::DelayNs for NoDelay {
    fn delay_ns(&mut self, _: u32) {}
}

/// All (top, bottom) with top in the shard's range: Ok(pairs checked) or the first failing pair.
fn scroll_exhaustive<M: crate::rig::MkModel>(shard: u64, shards: u64) -> Result<u64, (u64, u64, String)>
where
    M::ColorFormat: mipidsi::interface::InterfacePixelFormat<u8>,
{
    let fh = M::FRAMEBUFFER_SIZE.1 as u64;
    let probe = Probe { op: 0, n: 0, p: [0; 16], calls: 0 };
    let mut d = match mipidsi::Builder::new(M::mk(), probe).init(&mut NoDelay) {
        Ok(d) => d,
        Err(_) => return Err((0, 0, "init failed".into())),
    };
    let per = 65536 / shards;
    let mut n = 0u64;
    for t in (shard * per)..((shard + 1) * per) {
        let r = guarded(|| {
            for b in 0..=65535u64 {
                // SAFETY (of the accessor): only reads back what the probe recorded
                let before = unsafe { d.dcs().calls };
                if d.set_vertical_scroll_region(t as u16, b as u16).is_err() {
                    return Some((b, "returned an error".to_string()));
                }
                let pr = unsafe { d.dcs() };
                let f = |i: usize| (pr.p[i] as u64) << 8 | pr.p[i + 1] as u64;
                let (tfa, vsa, bfa) = (f(0), f(2), f(4));
                let ok = pr.calls == before + 1 && pr.op == 0x33 && pr.n == 6 && tfa + vsa + bfa == fh && (t + b > fh || (tfa == t && bfa == b));
                if !ok {
                    return Some((b, format!("{} command(s), last {:#04x} with {} parameter bytes: top {} scroll {} bottom {}", pr.calls - before, pr.op, pr.n, tfa, vsa, bfa)));
                }
            }
            None
        });
        match r {
            Ok(None) => n += 65536,
            Ok(Some((b, why))) => return Err((t, b, why)),
            Err(c) => {
                // locate the panicking pair in this row
                for b in 0..=65535u64 {
                    if guarded(|| d.set_vertical_scroll_region(t as u16, b as u16)).is_err() {
                        return Err((t, b, format!("{:?}", c)));
                    }
                }
                return Err((t, 0, format!("panicked somewhere in this row: {:?}", c)));
            }
        }
    }
    Ok(n)
}
