//! C01 / C02 / C08: drawing programs through the real driver, decoded by the
//! controller simulator and compared with the reference at every quiescent
//! point. One shared runner; each property attributes its own finding kinds.

use std::hash::{Hash, Hasher};

use crate::ev::{par_cases, Acc};
use crate::gen::{self, CfgOpts, Mode, ProgOpts};
use crate::json::J;
use crate::ops::Op;
use crate::panel::Anomaly;
use crate::prng::Rng;
use crate::rig::{DispCfg, InitResult};
use crate::session::{Finding, Opened, Session};
use crate::Args;

pub fn case_hash(cfg: &DispCfg, prog: &[Op]) -> u64 {
    let mut h = std::collections::hash_map::DefaultHasher::new();
    cfg.hash(&mut h);
    prog.hash(&mut h);
    h.finish()
}

pub fn case_json(cfg: &DispCfg, prog: &[Op]) -> J {
    J::obj().with("config", cfg.to_json()).with("program", gen::prog_json(prog))
}

/// Which property a finding belongs to.
#[derive(Clone, Copy, PartialEq, Eq)]
pub enum Attr {
    Placement, // C01 / C02: content, confinement, panic, error
    Framing,   // C08
}
pub fn attr(f: &Finding) -> Attr {
    match f {
        Finding::Framing(_) => Attr::Framing,
        Finding::Panel(a) => match a {
            Anomaly::BadParamCount { .. }
            | Anomaly::PartialPixel { .. }
            | Anomaly::PointerWrap
            | Anomaly::StartGtEnd { .. }
            | Anomaly::OrphanData(_) => Attr::Framing,
            _ => Attr::Placement,
        },
        _ => Attr::Placement,
    }
}

pub struct CaseStats {
    pub stored: u64,
    pub discarded: u64,
}

/// Run one (config, program) case; report findings through `on_finding`
/// (step index, op, finding). Returns None if init failed.
pub fn run_program(
    cfg: &DispCfg,
    prog: &[Op],
    a: &mut Acc,
    mut on_finding: impl FnMut(&mut Acc, usize, &Op, &Finding) -> bool,
) -> Result<CaseStats, InitResult> {
    let mut s: Box<Session> = match Session::open(cfg) {
        Opened::Ready(s) => s,
        Opened::Failed { init, .. } => return Err(init),
    };
    let init_f = std::mem::take(&mut s.init_findings);
    let init_op = Op::Wake; // placeholder op for attribution of init findings
    for f in &init_f {
        if on_finding(a, 0, &init_op, f) {
            return Ok(CaseStats { stored: 0, discarded: 0 });
        }
    }
    for (i, op) in prog.iter().enumerate() {
        let rep = s.step(op);
        a.count("driver_calls", 1);
        a.count(&format!("calls[{}]", op.name()), 1);
        a.count("low_level_ops", rep.ops);
        let mut stop = false;
        for f in &rep.findings {
            if on_finding(a, i, op, f) {
                stop = true;
            }
        }
        if stop || rep.result != crate::rig::CallResult::Ok {
            break;
        }
    }
    a.count("bus_commands_decoded", s.panel.cmds);
    a.count("pixels_decoded", s.panel.pixels);
    a.count("ramwr_bursts", s.panel.ramwr_count);
    a.count("cells_compared", s.compared_cells);
    Ok(CaseStats { stored: s.reffb.stored, discarded: s.reffb.discarded })
}

fn note_cfg(a: &mut Acc, cfg: &DispCfg) {
    a.seen("models", cfg.model.name());
    a.seen("transports", cfg.tr.name());
    a.seen("orientations", cfg.ori.name());
    a.seen("model_transport_orientation", format!("{}/{}/{}", cfg.model.name(), cfg.tr.name(), cfg.ori.name()));
    if cfg.tr == crate::rig::Tr::Spi {
        a.seen("spi_buffer_lengths", format!("{}", cfg.spi_buf));
    }
    a.seen(
        "window_kinds",
        if (cfg.w, cfg.h) == cfg.model.fb() {
            "full"
        } else if cfg.w == 1 && cfg.h == 1 {
            "1x1"
        } else if cfg.ox as u32 + cfg.w as u32 == cfg.model.fb().0 as u32 || cfg.oy as u32 + cfg.h as u32 == cfg.model.fb().1 as u32 {
            "touches-far-edge"
        } else {
            "interior"
        },
    );
}

fn note_prog(a: &mut Acc, cfg: &DispCfg, prog: &[Op]) {
    let mut ori = cfg.ori;
    for op in prog {
        let (lw, lh) = if ori.rot() & 1 == 0 { (cfg.w as i64, cfg.h as i64) } else { (cfg.h as i64, cfg.w as i64) };
        match op {
            Op::FillSolid { rect, .. } => a.seen("clip_classes_fill_solid", gen::clip_class(rect, lw, lh)),
            Op::FillContiguous { rect, .. } => a.seen("clip_classes_fill_contiguous", gen::clip_class(rect, lw, lh)),
            Op::DrawIter { pixels } => {
                for (x, y, _) in pixels {
                    let c = |v: i32, n: i64| {
                        if v < 0 {
                            "neg"
                        } else if (v as i64) < n {
                            "in"
                        } else if v < 65535 {
                            "ge-size"
                        } else if v == 65535 {
                            "65535"
                        } else {
                            "ge-65536"
                        }
                    };
                    a.seen("draw_iter_point_classes", format!("{}/{}", c(*x, lw), c(*y, lh)));
                }
            }
            Op::SetOrientation(o) => ori = *o,
            _ => {}
        }
    }
}

pub struct Stage {
    pub name: &'static str,
    pub mode: Mode,
    pub cfg: CfgOpts,
    pub prog: ProgOpts,
    pub n: u64,
}

pub fn stages(args: &Args, mode: Mode, allow_orient: bool) -> Vec<Stage> {
    let q = args.quick();
    let sm = crate::small();
    let po = |max_calls: i64, max_px: u64| ProgOpts {
        mode,
        max_calls: if sm { max_calls.min(4) } else { max_calls },
        max_px: if sm { max_px.min(60) } else { max_px },
        allow_clear: true,
        allow_orient,
        // scroll / tearing / sleep / wake between the drawing calls when orientation changes are
        // allowed too ("interactions between features"); none of them may disturb placement
        allow_misc: allow_orient,
        allow_test_image: true,
        allow_set_pixels: mode == Mode::InBounds,
    };
    let mut v = vec![
        Stage {
            name: "l2-small",
            mode,
            cfg: CfgOpts { external: true, l1: false, l2: true, max_l2_area: if sm { 36 } else if q { 24 * 24 } else { 64 * 64 } },
            prog: po(if q { 10 } else { 30 }, if q { 600 } else { 4096 }),
            n: args.n(20_000, 400_000),
        },
        Stage {
            name: "l1-any-size",
            mode,
            cfg: CfgOpts { external: true, l1: true, l2: false, max_l2_area: 0 },
            prog: po(if q { 12 } else { 40 }, if q { 4096 } else { 1 << 16 }),
            n: args.n(20_000, 400_000),
        },
    ];
    // large windows and pixel counts above 2^16 (run-length at L1 keeps them cheap)
    v.push(Stage {
        name: "l1-large",
        mode,
        cfg: CfgOpts { external: true, l1: true, l2: false, max_l2_area: 0 },
        prog: po(if q { 8 } else { 16 }, 1 << 18),
        n: args.n(1500, 40_000),
    });
    // the real SPI transport with transfer buffers of several kilobytes and bursts longer than
    // the buffer
    v.push(Stage {
        name: "l2-spi-bigbuf",
        mode,
        cfg: CfgOpts { external: true, l1: false, l2: true, max_l2_area: 128 * 128 },
        prog: po(6, 128 * 128),
        n: args.n(400, 8000),
    });
    // absolute history length: hundreds / tens of thousands of calls of one kind on one display
    // (counters that wrap), every call checked
    if !sm {
        v.push(Stage {
            name: "long-history",
            mode,
            cfg: CfgOpts { external: true, l1: true, l2: true, max_l2_area: 36 },
            prog: po(4, 144),
            n: args.n(24, 400),
        });
    }
    // two displays alive at the same time on separate interfaces (a dashboard with two panels),
    // driven alternately from one thread: nothing one display remembers may leak into the other
    v.push(Stage {
        name: "two-displays",
        mode,
        cfg: CfgOpts { external: true, l1: true, l2: true, max_l2_area: 24 * 24 },
        prog: po(6, 600),
        n: args.n(3000, 80_000),
    });
    // Display::release() and a second display (often another model / colour depth of the same
    // framebuffer size) built on the same interface object, then more drawing
    v.push(Stage {
        name: "rebuild",
        mode,
        cfg: CfgOpts { external: true, l1: true, l2: true, max_l2_area: 24 * 24 },
        prog: po(5, 600),
        n: args.n(4000, 100_000),
    });
    // full-size built-in panels at pin / SPI level (a clear is 76 800 … 153 600 pixels)
    if !sm {
        v.push(Stage {
            name: "l2-full-panels",
            mode,
            cfg: CfgOpts { external: false, l1: false, l2: true, max_l2_area: 320 * 536 },
            prog: po(if q { 5 } else { 12 }, 320 * 536),
            n: args.n(32, 3000),
        });
    }
    v
}

/// Shared runner. `want`: which attribution this property judges.
pub fn run_draw(args: &Args, prop: &'static str, mode: Mode, allow_orient: bool, want: &[Attr]) -> Acc {
    let mut total = Acc::new();
    for st in stages(args, mode, allow_orient) {
        if !args.want_stage(st.name) {
            continue;
        }
        let stage_tag = format!("{}/{}", prop, st.name);
        let acc = par_cases(st.n, args.threads, args.case, |idx, a| {
            let mut rng = Rng::for_case(args.seed, &stage_tag, &args.tier, idx);
            let mut cfg = gen::gen_cfg(&mut rng, &st.cfg);
            if st.name == "l2-spi-bigbuf" {
                if !cfg.model.supports(crate::rig::Kind::Serial) {
                    cfg.model = crate::rig::ModelId::ST7789;
                }
                cfg.tr = crate::rig::Tr::Spi;
                cfg.spi_buf = *rng.pick(&[4098usize, 6000, 16384, 131072]);
                let (fw, fh) = cfg.model.fb();
                let (w, h, ox, oy) = gen::gen_window(&mut rng, fw, fh, 128 * 128);
                cfg.w = w;
                cfg.h = h;
                cfg.ox = ox;
                cfg.oy = oy;
                if (fw as u32) >= 100 && (fh as u32) >= 100 && rng.chance(2, 3) {
                    // large enough for bursts beyond the buffer length
                    cfg.w = rng.range(64, (fw as i64).min(128)) as u16;
                    cfg.h = rng.range(64, (fh as i64).min(128)) as u16;
                    cfg.ox = rng.range(0, (fw - cfg.w) as i64) as u16;
                    cfg.oy = rng.range(0, (fh - cfg.h) as i64) as u16;
                }
            }
            if st.name == "l2-full-panels" && rng.chance(3, 4) {
                let (fw, fh) = cfg.model.fb();
                cfg.w = fw;
                cfg.h = fh;
                cfg.ox = 0;
                cfg.oy = 0;
            }
            if st.name == "l1-large" {
                // windows of several hundred pixels per side (or all the framebuffer has), often
                // anchored at the far framebuffer corner
                let (fw, fh) = cfg.model.fb();
                let (fw, fh) = (fw as i64, fh as i64);
                let w = rng.range(fw.min(200), fw.min(1500));
                let h = rng.range(fh.min(200), fh.min(1500));
                cfg.w = w as u16;
                cfg.h = h as u16;
                cfg.ox = if rng.bool() { fw - w } else { rng.range(0, fw - w) } as u16;
                cfg.oy = if rng.bool() { fh - h } else { rng.range(0, fh - h) } as u16;
            }
            let mut po = ProgOpts { ..clone_po(&st.prog) };
            // full-size huge windows: no whole-area operations through L2
            let full = cfg.w as u64 * cfg.h as u64;
            if cfg.tr.is_l2() {
                po.max_px = po.max_px.min(st.cfg.max_l2_area.max(1));
            }
            if full > po.max_px {
                po.allow_clear = cfg.tr.is_l2() == false; // L1 clears are run-length, any size
                po.allow_test_image = false;
            }
            if !cfg.tr.is_l2() {
                // a clear of a 65535x65535 window is one run event at L1
                po.allow_clear = true;
            }
            if st.name == "rebuild" {
                rebuild_case(args, prop, &st, idx, &mut rng, cfg, po, want, a);
                return;
            }
            if st.name == "two-displays" {
                two_displays_case(&st, idx, &mut rng, cfg, po, want, a);
                return;
            }
            let prog = if st.name == "long-history" {
                // a small window anywhere in the framebuffer (so that offsets matter)
                let (fw, fh) = cfg.model.fb();
                let (w, h, ox, oy) = gen::gen_window(&mut rng, fw, fh, if cfg.tr.is_l2() { 36 } else { 144 });
                cfg.w = w;
                cfg.h = h;
                cfg.ox = ox;
                cfg.oy = oy;
                long_history_program(&mut rng, &cfg, &po, allow_orient, idx)
            } else {
                gen::gen_program(&mut rng, &cfg, &po)
            };
            let prog = fix_clear_budget(prog, &cfg, &po);
            note_cfg(a, &cfg);
            note_prog(a, &cfg, &prog);
            let mut violated = false;
            let r = run_program(&cfg, &prog, a, |a, step, op, f| {
                if want.contains(&attr(f)) {
                    violated = true;
                    let sig = format!("{}/{}", op.name(), f.kind());
                    a.violate(
                        st.name,
                        idx,
                        sig,
                        format!("step {} ({}): {}", step, op.name(), f.describe()),
                        case_json(&cfg, &prog),
                    );
                    true
                } else {
                    a.count(&format!("findings_left_to_other_property[{}]", f.kind()), 1);
                    false
                }
            });
            match r {
                Ok(stats) => {
                    let nontrivial = stats.stored > 0;
                    a.case_hash(case_hash(&cfg, &prog), nontrivial && !violated);
                    a.count("ref_pixels_stored", stats.stored);
                    a.count("ref_pixels_discarded_out_of_bounds", stats.discarded);
                    if idx < 3 {
                        a.sample(case_json(&cfg, &prog).with("stage", st.name));
                    }
                }
                Err(init) => {
                    a.case_hash(case_hash(&cfg, &prog), false);
                    a.violate(
                        st.name,
                        idx,
                        format!("init/{:?}", std::mem::discriminant(&init)),
                        format!("init of a valid configuration failed: {:?}", init),
                        case_json(&cfg, &prog),
                    );
                }
            }
        });
        total.merge(acc);
    }
    total.notes.insert(
        "rule".into(),
        J::Str(
            "case = (display configuration, program of driver calls) generated from (seed, stage, case index); \
             distinct = distinct hash of (configuration, program); non-trivial = the reference stored at least one \
             in-bounds pixel and the case ran to its end"
                .into(),
        ),
    );
    total
}

pub fn clone_po(p: &ProgOpts) -> ProgOpts {
    ProgOpts {
        mode: p.mode,
        max_calls: p.max_calls,
        max_px: p.max_px,
        allow_clear: p.allow_clear,
        allow_orient: p.allow_orient,
        allow_misc: p.allow_misc,
        allow_test_image: p.allow_test_image,
        allow_set_pixels: p.allow_set_pixels,
    }
}

/// gen_program only emits Clear when the full area fits max_px; at L1 a
/// clear is cheap at any size, so add one now and then.
fn fix_clear_budget(mut prog: Vec<Op>, cfg: &DispCfg, _po: &ProgOpts) -> Vec<Op> {
    if !cfg.tr.is_l2() && !prog.is_empty() {
        let full = cfg.w as u64 * cfg.h as u64;
        if full > 4096 {
            // deterministic from the program itself
            let mut h = std::collections::hash_map::DefaultHasher::new();
            prog.hash(&mut h);
            let v = h.finish();
            if v % 3 == 0 {
                let pos = (v >> 8) as usize % (prog.len() + 1);
                prog.insert(pos, Op::Clear { c: (v >> 20) as u32 & 0xFFFF });
            }
        }
    }
    prog
}

fn floors(a: &mut Acc, mode: Mode, quick: bool) {
    // coverage floors: "class never observed" is inconclusive, not a pass
    let need_models = 14 + 6;
    let m = a.sets.get("models").map(|s| s.len()).unwrap_or(0);
    if m < need_models {
        a.inconclusive(format!("only {} models exercised (floor {})", m, need_models));
    }
    let o = a.sets.get("orientations").map(|s| s.len()).unwrap_or(0);
    if o < 8 {
        a.inconclusive(format!("only {} orientations exercised", o));
    }
    let t = a.sets.get("transports").map(|s| s.len()).unwrap_or(0);
    if t < 7 {
        a.inconclusive(format!("only {} transports exercised", t));
    }
    if mode == Mode::Hostile {
        let c = a.sets.get("clip_classes_fill_solid").map(|s| s.len()).unwrap_or(0);
        let floor = if quick { 20 } else { 30 };
        if c < floor {
            a.inconclusive(format!("only {} fill_solid clip classes observed (floor {})", c, floor));
        }
        let p = a.sets.get("draw_iter_point_classes").map(|s| s.len()).unwrap_or(0);
        if p < 12 {
            a.inconclusive(format!("only {} draw_iter point classes observed (floor 12)", p));
        }
    }
}

pub fn c01(args: &Args) -> Acc {
    let mut a = run_draw(args, "C01", Mode::InBounds, false, &[Attr::Placement]);
    // the same programs with runtime orientation changes in between: the orientation the
    // display is *currently* configured with decides placement
    let b = run_draw(args, "C01/reorient", Mode::InBounds, true, &[Attr::Placement]);
    a.merge(b);
    if args.case.is_none() && args.stage.is_none() {
        floors(&mut a, Mode::InBounds, args.quick());
    }
    a
}

pub fn c02(args: &Args) -> Acc {
    let mut a = run_draw(args, "C02", Mode::Hostile, false, &[Attr::Placement]);
    if args.case.is_none() && args.stage.is_none() {
        floors(&mut a, Mode::Hostile, args.quick());
    }
    a
}

pub fn c08(args: &Args) -> Acc {
    // both in-bounds and hostile programs, with orientation changes in between
    let mut a = run_draw(args, "C08/in", Mode::InBounds, true, &[Attr::Framing]);
    let b = run_draw(args, "C08/out", Mode::Hostile, true, &[Attr::Framing]);
    a.merge(b);
    a
}


/// models that can follow each other on one interface (same framebuffer size)
fn rebuild_partners(m: crate::rig::ModelId) -> Vec<crate::rig::ModelId> {
    use crate::rig::ModelId::*;
    let groups: [&[crate::rig::ModelId]; 3] = [
        &[ILI9341Rgb565, ILI9341Rgb666, ST7789, Ext240x320c666],
        &[ILI9486Rgb565, ILI9486Rgb666, ILI9488Rgb565, ILI9488Rgb666, ST7796],
        &[ILI9342CRgb565, ILI9342CRgb666],
    ];
    for g in groups {
        if g.contains(&m) {
            return g.to_vec();
        }
    }
    vec![m]
}

/// Two sessions (display + interface + controller simulator + reference each), stepped
/// alternately. The second configuration is often "almost the same" as the first (same model,
/// same window size, other offset / orientation), which is where shared state would be reused.
fn two_displays_case(st: &Stage, idx: u64, rng: &mut Rng, cfg: DispCfg, po: ProgOpts, want: &[Attr], a: &mut Acc) {
    let mut cfg2 = if rng.bool() {
        let mut c = cfg.clone();
        c.ori = crate::spec::Ori(rng.below(8) as u8);
        c.bgr = rng.bool();
        if rng.bool() {
            let (fw, fh) = c.model.fb();
            c.ox = rng.range(0, (fw - c.w) as i64) as u16;
            c.oy = rng.range(0, (fh - c.h) as i64) as u16;
        }
        c
    } else {
        gen::gen_cfg(rng, &st.cfg)
    };
    if rng.bool() {
        cfg2.tr = cfg.tr;
    }
    if !cfg2.tr.type_checks(cfg2.model.bits()) || (cfg2.model.is_builtin() && !cfg2.model.supports(cfg2.tr.kind())) {
        cfg2 = cfg.clone();
    }
    let mut po = po;
    po.allow_test_image = false;
    let area = |c: &DispCfg| c.w as u64 * c.h as u64;
    let prog1 = fix_clear_budget(gen::gen_program(rng, &cfg, &{ let mut p = clone_po(&po); if cfg.tr.is_l2() { p.max_px = p.max_px.min(st.cfg.max_l2_area) } if area(&cfg) > p.max_px { p.allow_clear = !cfg.tr.is_l2() } p }), &cfg, &po);
    let prog2 = fix_clear_budget(gen::gen_program(rng, &cfg2, &{ let mut p = clone_po(&po); if cfg2.tr.is_l2() { p.max_px = p.max_px.min(st.cfg.max_l2_area) } if area(&cfg2) > p.max_px { p.allow_clear = !cfg2.tr.is_l2() } p }), &cfg2, &po);
    // sometimes both displays get the *same* program (same windows, same colours)
    let prog2 = if cfg2.w == cfg.w && cfg2.h == cfg.h && cfg2.ori.rot() % 2 == cfg.ori.rot() % 2 && cfg2.model.bits() == cfg.model.bits() && rng.bool() { prog1.clone() } else { prog2 };
    let cj = || J::obj().with("display_a", case_json(&cfg, &prog1)).with("display_b", case_json(&cfg2, &prog2));
    note_cfg(a, &cfg);
    note_cfg(a, &cfg2);
    let (mut sa, mut sb) = match (Session::open(&cfg), Session::open(&cfg2)) {
        (Opened::Ready(x), Opened::Ready(y)) => (x, y),
        _ => {
            a.violate(st.name, idx, "init", "init of a valid configuration failed", cj());
            return;
        }
    };
    let (mut ia, mut ib) = (0usize, 0usize);
    let mut bad = false;
    while (ia < prog1.len() || ib < prog2.len()) && !bad {
        // mostly strict alternation, sometimes two calls in a row on one display
        let take_a = ib >= prog2.len() || (ia < prog1.len() && (ia <= ib || rng.chance(1, 4)));
        let (s, op, which) = if take_a {
            ia += 1;
            (&mut sa, &prog1[ia - 1], "a")
        } else {
            ib += 1;
            (&mut sb, &prog2[ib - 1], "b")
        };
        let rep = s.step(op);
        a.count("driver_calls", 1);
        for f in &rep.findings {
            if want.contains(&attr(f)) {
                bad = true;
                a.violate(st.name, idx, format!("two-displays/{}/{}", op.name(), f.kind()), format!("display {} call {}: {}", which, if take_a { ia - 1 } else { ib - 1 }, f.describe()), cj());
            }
        }
        if rep.result != crate::rig::CallResult::Ok {
            break;
        }
    }
    a.count("display_pairs_driven_alternately", 1);
    a.count("ref_pixels_stored", sa.reffb.stored + sb.reffb.stored);
    a.count("cells_compared", sa.compared_cells + sb.compared_cells);
    let mut h = std::collections::hash_map::DefaultHasher::new();
    std::hash::Hash::hash(&(case_hash(&cfg, &prog1), case_hash(&cfg2, &prog2)), &mut h);
    a.case_hash(std::hash::Hasher::finish(&h), sa.reffb.stored + sb.reffb.stored > 0 && !bad);
    if idx < 2 {
        a.sample(cj().with("stage", st.name));
    }
}

#[allow(clippy::too_many_arguments)]
fn rebuild_case(args: &Args, _prop: &str, st: &Stage, idx: u64, rng: &mut Rng, mut cfg: DispCfg, po: ProgOpts, want: &[Attr], a: &mut Acc) {
    use crate::rig::ModelId::*;
    // models the rebuild dispatch knows
    let wired = [GC9107, GC9A01, ILI9341Rgb565, ILI9341Rgb666, ILI9342CRgb565, ILI9342CRgb666, ILI9486Rgb565, ILI9486Rgb666, ILI9488Rgb565, ILI9488Rgb666, RM67162, ST7735s, ST7789, ST7796, Ext16x16, Ext64x48, Ext256x256, Ext240x320c666, ExtQuirk];
    if !wired.contains(&cfg.model) {
        cfg.model = *rng.pick(&wired);
    }
    // second configuration: a partner model that the transport can drive
    let partners: Vec<crate::rig::ModelId> = rebuild_partners(cfg.model)
        .into_iter()
        .filter(|m| cfg.tr.type_checks(m.bits()) && (!m.is_builtin() || m.supports(cfg.tr.kind())))
        .collect();
    if !cfg.tr.type_checks(cfg.model.bits()) || (cfg.model.is_builtin() && !cfg.model.supports(cfg.tr.kind())) || partners.is_empty() {
        cfg.tr = crate::rig::Tr::P8;
    }
    let partners: Vec<crate::rig::ModelId> = rebuild_partners(cfg.model)
        .into_iter()
        .filter(|m| cfg.tr.type_checks(m.bits()) && (!m.is_builtin() || m.supports(cfg.tr.kind())))
        .collect();
    let (fw, fh) = cfg.model.fb();
    let max_area = if cfg.tr.is_l2() { st.cfg.max_l2_area } else { 4096 };
    let (w, h, ox, oy) = gen::gen_window(rng, fw, fh, max_area);
    cfg.w = w;
    cfg.h = h;
    cfg.ox = ox;
    cfg.oy = oy;
    cfg.spi_buf = gen::spi_buf_len(rng, 18).min(512).max(3);
    let mut cfg2 = cfg.clone();
    cfg2.model = *rng.pick(&partners);
    cfg2.ori = crate::spec::Ori(rng.below(8) as u8);
    cfg2.bgr = rng.bool();
    cfg2.refresh = rng.below(4) as u8;
    cfg2.invert = rng.bool();
    cfg2.rst = rng.bool();
    cfg2.order = if rng.bool() { 0 } else { rng.below(10_080) as u16 };
    let (w2, h2, ox2, oy2) = gen::gen_window(rng, fw, fh, max_area);
    cfg2.w = w2;
    cfg2.h = h2;
    cfg2.ox = ox2;
    cfg2.oy = oy2;
    let mut po = po;
    po.allow_test_image = false;
    po.max_px = po.max_px.min(max_area);
    po.allow_clear = true;
    let mut prog1 = gen::gen_program(rng, &cfg, &po);
    let mut prog2 = gen::gen_program(rng, &cfg2, &po);
    // now and then the last solid fill before the release and the first one after it use colours
    // whose wire bytes overlap ([a, b] in 16 bpp, [0, a, b] in 18 bpp): an interface that
    // remembers "my buffer already holds this fill" must not be fooled across displays
    if rng.chance(1, 3) {
        let a8 = (rng.next() as u32 & 0xFC).max(4);
        let b8 = rng.next() as u32 & 0xFC;
        let c565 = a8 << 8 | b8;
        // 18 bpp wire bytes [0, a, b] or [a, b, 0]
        let c666 = if rng.bool() { (a8 >> 2) << 6 | (b8 >> 2) } else { (a8 >> 2) << 12 | (b8 >> 2) << 6 };
        let tag = |bits: u8| if bits == 16 { c565 } else { c666 };
        // (a few pixels each: with one pixel the shorter form is a prefix of the longer one)
        let w1 = rng.range(1, 6) as u32;
        let w2 = rng.range(1, 6) as u32;
        prog1.push(Op::FillSolid { rect: crate::ops::Rect { x: 0, y: 0, w: w1, h: 1 }, c: tag(cfg.model.bits()) });
        prog2.insert(0, Op::FillSolid { rect: crate::ops::Rect { x: 0, y: 0, w: w2, h: 1 }, c: tag(cfg2.model.bits()) });
    }
    let cj = || J::obj().with("config", cfg.to_json()).with("program", gen::prog_json(&prog1)).with("rebuilt_as", cfg2.to_json()).with("program_after_rebuild", gen::prog_json(&prog2));
    a.seen("rebuild_pairs", format!("{}->{}", cfg.model.name(), cfg2.model.name()));
    a.seen("transports", cfg.tr.name());
    a.seen("models", cfg.model.name());
    a.seen("orientations", cfg.ori.name());
    let _ = args;
    let mut s = match Session::open(&cfg) {
        Opened::Ready(s) => s,
        Opened::Failed { init, .. } => {
            a.violate(st.name, idx, "init", format!("{:?}", init), cj());
            return;
        }
    };
    let mut bad = false;
    let judge = |a: &mut Acc, phase: &str, op: &Op, f: &Finding| -> bool {
        if want.contains(&attr(f)) {
            a.violate(st.name, idx, format!("{}{}/{}", phase, op.name(), f.kind()), f.describe(), cj());
            true
        } else {
            false
        }
    };
    for op in &prog1 {
        let rep = s.step(op);
        for f in &rep.findings {
            bad |= judge(a, "", op, f);
        }
        if bad || rep.result != crate::rig::CallResult::Ok {
            a.case_hash(case_hash(&cfg, &prog1), false);
            return;
        }
    }
    let mut s = match s.rebuild(&cfg2) {
        Opened::Ready(s) => s,
        Opened::Failed { init, .. } => {
            a.violate(st.name, idx, "after-release/init", format!("init on the released interface failed: {:?}", init), cj());
            return;
        }
    };
    a.count("rebuilds", 1);
    let init_f = std::mem::take(&mut s.init_findings);
    for f in &init_f {
        bad |= judge(a, "after-release/init-", &Op::Wake, f);
    }
    // the second init must have programmed the controller for the new options
    if s.panel.madctl != s.want_madctl(cfg2.ori) || s.panel.colmod != crate::spec::colmod(cfg2.model.bits()) {
        if want.contains(&Attr::Placement) {
            bad = true;
            a.violate(
                st.name,
                idx,
                "after-release/controller-state",
                format!("after the second init the controller holds address mode {:#04x} (expected {:#04x}) and pixel format {:#04x} (expected {:#04x})", s.panel.madctl, s.want_madctl(cfg2.ori), s.panel.colmod, crate::spec::colmod(cfg2.model.bits())),
                cj(),
            );
        }
    }
    if !bad {
        for op in &prog2 {
            let rep = s.step(op);
            for f in &rep.findings {
                bad |= judge(a, "after-release/", op, f);
            }
            if bad || rep.result != crate::rig::CallResult::Ok {
                break;
            }
        }
    }
    let mut h = std::collections::hash_map::DefaultHasher::new();
    cfg.hash(&mut h);
    prog1.hash(&mut h);
    cfg2.hash(&mut h);
    prog2.hash(&mut h);
    a.case_hash(h.finish(), !bad && s.reffb.stored > 0);
    if idx < 2 {
        a.sample(cj().with("stage", "rebuild"));
    }
}


/// A program whose interesting property is its *length*: N calls of one kind (N around 256,
/// 512 or 65536), then ordinary drawing.
fn long_history_program(rng: &mut Rng, cfg: &DispCfg, po: &ProgOpts, allow_orient: bool, idx: u64) -> Vec<Op> {
    let mut prog: Vec<Op> = Vec::new();
    let mut ori = cfg.ori;
    let lsize = |o: crate::spec::Ori| if o.rot() & 1 == 0 { (cfg.w as i64, cfg.h as i64) } else { (cfg.h as i64, cfg.w as i64) };
    // the very long runs only at the Interface level (one event per call there)
    let long = !cfg.tr.is_l2() && idx % 3 == 0;
    let n = if long { *rng.pick(&[65_536usize, 65_537]) } else { *rng.pick(&[255usize, 256, 257, 511, 512, 513]) };
    let mut tags = gen::TagGen::new(rng);
    let kind = if allow_orient { rng.below(3) } else { 1 + rng.below(2) };
    // something drawn first, so that a cached window / fill exists
    let (lw, lh) = lsize(ori);
    let c0 = tags.one();
    prog.push(Op::FillSolid { rect: crate::ops::Rect { x: 0, y: 0, w: lw as u32, h: lh as u32 }, c: c0 });
    match kind {
        0 => {
            // N orientation changes in a row, no drawing in between
            for i in 0..n {
                ori = crate::spec::Ori(((ori.0 as usize + 1 + (i % 3)) % 8) as u8);
                prog.push(Op::SetOrientation(ori));
            }
        }
        1 => {
            // N full-frame fills
            for _ in 0..n {
                prog.push(Op::Clear { c: tags.one() });
            }
        }
        _ => {
            // N pixel-stream calls between two fills of the same colour
            let n = n.min(1030);
            for i in 0..n {
                prog.push(Op::SetPixels { sx: 0, sy: 0, ex: 0, ey: 0, colors: crate::ops::Stream::Seq { start: tags.one() + i as u32, step: 1, len: Some(1) } });
            }
        }
    }
    // the same fill again (identical window and colour), then ordinary calls
    let (lw, lh) = lsize(ori);
    prog.push(Op::FillSolid { rect: crate::ops::Rect { x: 0, y: 0, w: lw as u32, h: lh as u32 }, c: c0 });
    let mut c2 = cfg.clone();
    c2.ori = ori;
    let mut po2 = clone_po(po);
    po2.allow_orient = false;
    po2.allow_misc = false;
    po2.max_calls = 4;
    prog.extend(gen::gen_program(rng, &c2, &po2));
    prog
}
