//! C12: fail the k-th low-level operation of every driver call, for every k.

use crate::ev::{par_cases, Acc};
use crate::gen::{self, Mode, ProgOpts, TagGen};
use crate::hal::{Effect, Src};
use crate::json::J;
use crate::ops::{Op, Rect, Stream};
use crate::prng::Rng;
use crate::rig::{expected_variant, CallResult, DispCfg, InitResult, ModelId, Tr};
use crate::session::{Opened, Session};
use crate::spec::Ori;
use crate::Args;

fn src_name(s: Src) -> String {
    match s {
        Src::D(_) => "data-pin".to_string(),
        o => format!("{:?}", o).to_lowercase(),
    }
}

/// number of fallible low-level operations of a fault-free init
fn dry_init(cfg: &DispCfg) -> Option<u64> {
    match Session::open(cfg) {
        Opened::Ready(s) => Some(s.tl.ops()),
        Opened::Failed { .. } => None,
    }
}

fn effects(_args: &Args) -> Vec<Effect> {
    vec![Effect::NoEffect, Effect::TookEffect, Effect::Inverted]
}

pub fn c12(args: &Args) -> Acc {
    let mut total = Acc::new();
    // ---------------------------------------------------------- init of every model
    if args.want_stage("init") {
        let mut combos: Vec<DispCfg> = Vec::new();
        for m in crate::rig::builtin() {
            for t in [Tr::Spi, Tr::P8, Tr::P16, Tr::L1S] {
                if t.type_checks(m.bits()) && m.supports(t.kind()) {
                    for rst in [true, false] {
                        let mut c = DispCfg::full(m, t);
                        c.rst = rst;
                        c.ori = Ori(((m.ord() as u8) + rst as u8) % 8);
                        c.bgr = rst;
                        c.invert = !rst;
                        combos.push(c);
                    }
                }
            }
        }
        // work items: (combo, effect, k)
        let effs = effects(args);
        let mut items: Vec<(usize, Effect, u64)> = Vec::new();
        let mut dry: Vec<u64> = Vec::new();
        for (ci, c) in combos.iter().enumerate() {
            let n = dry_init(c).unwrap_or(0);
            dry.push(n);
            if n == 0 {
                total.violate("init", ci as u64, "dry-run-init-failed", "fault-free init failed", c.to_json());
            }
            for e in &effs {
                for k in 0..n {
                    items.push((ci, *e, k));
                }
            }
        }
        total.notes.insert("init_fault_positions".into(), J::Int(items.len() as i128));
        let acc = par_cases(items.len() as u64, args.threads, args.case, |idx, a| {
            let (ci, eff, k) = items[idx as usize];
            let cfg = &combos[ci];
            let cj = || cfg.to_json().with("call", "Builder::init").with("fail_op", k).with("effect", format!("{:?}", eff));
            a.case(&format!("init/{}/{:?}/{}", ci, eff, k), true);
            match Session::open_with(cfg, Some(k), eff, false) {
                Opened::Ready(_) => {
                    a.violate("init", idx, format!("init/error-swallowed/{}", cfg.tr.name()), format!("init returned Ok although operation {} of {} failed", k, dry[ci]), cj());
                }
                Opened::Failed { init, tl, .. } => {
                    let t = tl.0.borrow();
                    let Some(f) = t.faulted else {
                        a.inconclusive("fault position never reached");
                        return;
                    };
                    a.seen("init_fault_sources", format!("{}/{}", cfg.tr.name(), src_name(f.src)));
                    let sig_base = format!("init/{}/{}", cfg.tr.name(), src_name(f.src));
                    match &init {
                        InitResult::Interface(e) => {
                            if f.src == Src::Rst {
                                a.violate("init", idx, format!("{}/wrong-variant", sig_base), format!("reset pin failed but init returned Interface({:?})", e), cj());
                            } else if e.variant != expected_variant(f.src) || e.fault != f {
                                a.violate("init", idx, format!("{}/wrong-variant", sig_base), format!("operation {} ({:?}) failed; init returned {:?}", k, f.src, e), cj());
                            }
                        }
                        InitResult::ResetPin(g) => {
                            if f.src != Src::Rst || *g != f {
                                a.violate("init", idx, format!("{}/wrong-variant", sig_base), format!("{:?} failed but init returned ResetPin({:?})", f, g), cj());
                            }
                        }
                        InitResult::Panic { msg, loc } => {
                            a.violate("init", idx, format!("{}/panic@{}", sig_base, loc), msg.clone(), cj());
                        }
                        other => {
                            a.violate("init", idx, format!("{}/wrong-result", sig_base), format!("{:?}", other), cj());
                        }
                    }
                    if t.ops_after_fault != 0 {
                        a.violate("init", idx, format!("{}/operations-after-fault", sig_base), format!("{} further pin/bus operations after the failure at operation {}", t.ops_after_fault, k), cj());
                    }
                    a.count("init_faults_checked", 1);
                    if idx % 20_011 == 7 {
                        drop(t);
                        a.sample(cj().with("result", format!("{:?}", init)));
                    }
                }
            }
        });
        total.merge(acc);
    }
    // ---------------------------------------------------------- display calls
    // tens of thousands of failing calls on one display / interface object: every one is
    // reported (nothing that counts failures may overflow), and the display works afterwards
    if args.want_stage("error-storm") && !crate::small() {
        let combos: Vec<(Tr, Op)> = vec![
            (Tr::P8, Op::ScrollOffset(7)),
            (Tr::P16, Op::SetPixel { x: 1, y: 1, c: 0x1357 }),
            (Tr::Spi, Op::SetOrientation(Ori(3))),
            (Tr::L1S, Op::Tearing(1)),
            (Tr::Spi, Op::FillSolid { rect: Rect { x: 0, y: 0, w: 2, h: 2 }, c: 0x2468 }),
            (Tr::P8, Op::Sleep),
        ];
        let acc = par_cases(combos.len() as u64, args.threads, args.case, |idx, a| {
            let (tr, op) = combos[idx as usize].clone();
            let mut cfg = DispCfg::full(ModelId::ST7789, tr);
            cfg.w = 8;
            cfg.h = 8;
            cfg.spi_buf = 16;
            let cj = || J::obj().with("config", cfg.to_json()).with("call", op.to_json());
            let Opened::Ready(mut s) = Session::open(&cfg) else { return };
            let storm = if args.quick() { 65_540u64 } else { 131_080 };
            a.case(&format!("error-storm/{}/{}", tr.name(), op.name()), true);
            for i in 0..storm {
                // the first low-level operation of the call fails
                let r = s.step_with(&op, Some(0));
                match &r.result {
                    CallResult::Err(_) => {}
                    CallResult::Panic { msg, loc } => {
                        a.violate("error-storm", idx, format!("error-storm/{}/{}/panic@{}", op.name(), tr.name(), loc), format!("failing call number {}: {}", i + 1, msg), cj().with("failing_calls_before", i));
                        return;
                    }
                    other => {
                        a.violate("error-storm", idx, format!("error-storm/{}/{}/not-reported", op.name(), tr.name()), format!("failing call number {} returned {:?}", i + 1, other), cj().with("failing_calls_before", i));
                        return;
                    }
                }
                a.count("error_storm_failures_reported", 1);
            }
            // the fault has cleared
            let mut rec = vec![Op::Wake, op.clone(), Op::Clear { c: 0x4321 }, Op::SetPixel { x: 2, y: 3, c: 0x0FF0 }];
            if matches!(op, Op::Sleep) {
                rec.insert(2, Op::Wake);
            }
            for rop in &rec {
                let rr = s.step(rop);
                if let Some(fd) = rr.findings.first() {
                    a.violate("error-storm", idx, format!("error-storm/{}/{}/recovery/{}/{}", op.name(), tr.name(), rop.name(), fd.kind()), format!("after {} failed calls: {}", storm, fd.describe()), cj());
                    return;
                }
            }
        });
        total.merge(acc);
    }
    if args.want_stage("calls") {
        let n = args.n(6000, 60_000);
        let effs = effects(args);
        let acc = par_cases(n, args.threads, args.case, |idx, a| {
            let mut rng = Rng::for_case(args.seed, "C12/calls", &args.tier, idx);
            let models = [ModelId::ILI9341Rgb565, ModelId::ILI9341Rgb666, ModelId::ST7789, ModelId::Ext16x16, ModelId::GC9A01, ModelId::ILI9486Rgb666, ModelId::Ext64x48, ModelId::ExtQuirk];
            let m = *rng.pick(&models);
            let trs: Vec<Tr> = [Tr::Spi, Tr::P8, Tr::P16, Tr::L1S].into_iter().filter(|t| t.type_checks(m.bits())).collect();
            let tr = *rng.pick(&trs);
            let mut cfg = DispCfg::full(m, tr);
            let (fw, fh) = m.fb();
            cfg.w = rng.range(2, 12.min(fw as i64)) as u16;
            cfg.h = rng.range(2, 12.min(fh as i64)) as u16;
            cfg.ox = rng.range(0, (fw - cfg.w) as i64) as u16;
            cfg.oy = rng.range(0, (fh - cfg.h) as i64) as u16;
            cfg.ori = Ori(rng.below(8) as u8);
            cfg.spi_buf = gen::spi_buf_len(&mut rng, m.bits()).min(4098);
            cfg.rst = rng.bool();
            cfg.bgr = rng.bool();
            cfg.refresh = rng.below(4) as u8;
            cfg.invert = rng.bool();
            let (lw, lh) = if cfg.ori.rot() & 1 == 0 { (cfg.w as i64, cfg.h as i64) } else { (cfg.h as i64, cfg.w as i64) };
            let mut tags = TagGen::new(&mut rng);
            let new_ori = Ori(rng.below(8) as u8);
            let op = match rng.below(13) {
                12 => Op::TestImage,
                0 => Op::SetPixel { x: rng.range(0, lw - 1) as u16, y: rng.range(0, lh - 1) as u16, c: tags.one() },
                1 => {
                    let r = gen::gen_rect(&mut rng, lw, lh, Mode::InBounds, 64);
                    let r = if r.w == 0 || r.h == 0 { Rect { x: 0, y: 0, w: 1, h: 1 } } else { r };
                    Op::SetPixels { sx: r.x as u16, sy: r.y as u16, ex: (r.x as u32 + r.w - 1) as u16, ey: (r.y as u32 + r.h - 1) as u16, colors: Stream::Seq { start: tags.run(r.area()), step: 1, len: Some(r.area()) } }
                }
                2 | 3 => Op::DrawIter { pixels: gen::gen_pixel_stream(&mut rng, lw, lh, Mode::InBounds, &mut tags, 40, 5, 10) },
                4 => {
                    let r = gen::gen_rect(&mut rng, lw, lh, Mode::InBounds, 64);
                    Op::FillContiguous { rect: r, colors: Stream::Seq { start: tags.run(r.area()), step: 1, len: None } }
                }
                5 => Op::FillSolid { rect: gen::gen_rect(&mut rng, lw, lh, Mode::InBounds, 64), c: tags.one() },
                6 => Op::Clear { c: tags.one() },
                7 => Op::SetOrientation(new_ori),
                8 => Op::ScrollRegion(rng.range(0, 100) as u16, rng.range(0, 100) as u16),
                9 => Op::ScrollOffset(rng.next() as u16),
                10 => Op::Tearing(rng.below(3) as u8),
                _ => {
                    if rng.bool() {
                        Op::Sleep
                    } else {
                        Op::Wake
                    }
                }
            };
            // calls that set the scene for the call under test (a wake is most interesting on a
            // sleeping display; drawing after an earlier orientation change)
            let mut pre: Vec<Op> = Vec::new();
            if matches!(op, Op::Wake) && rng.bool() {
                pre.push(Op::Sleep);
            }
            if rng.chance(1, 6) {
                pre.push(Op::SetPixel { x: 0, y: 0, c: 0x2222 });
            }
            // a solid fill before, and the same colour again (smaller) right after the fault: a
            // transport that remembers "the staging buffer already holds this fill" is exposed
            let refill = if rng.chance(1, 3) {
                pre.push(Op::FillSolid { rect: Rect { x: 0, y: 0, w: lw as u32, h: lh as u32 }, c: 0x3C5A });
                true
            } else {
                false
            };
            // dry run
            let Opened::Ready(mut dry) = Session::open(&cfg) else {
                a.violate("calls", idx, "init", "init failed".to_string(), cfg.to_json());
                return;
            };
            for p in &pre {
                let _ = dry.step(p);
            }
            let rep = dry.step(&op);
            if rep.result != CallResult::Ok {
                a.count("dry_run_not_ok", 1);
                return;
            }
            let nops = rep.ops;
            drop(dry);
            a.seen("calls", op.name());
            a.seen("transports", tr.name());
            for eff in &effs {
                for k in 0..nops {
                    let cj = || J::obj().with("config", cfg.to_json()).with("before", gen::prog_json(&pre)).with("call", op.to_json()).with("fail_op", k).with("of", nops).with("effect", format!("{:?}", eff));
                    a.case(&format!("{}/{:?}/{}/{:?}/{}", idx, op.name(), k, eff, cfg.tr.name()), true);
                    let Opened::Ready(mut s) = Session::open_with(&cfg, None, *eff, false) else { return };
                    s.panel.latch_on_abort = true;
                    for p in &pre {
                        let _ = s.step(p);
                    }
                    let before_sleep = s.rig.is_sleeping();
                    let madctl_before = s.panel.madctl;
                    let r = s.step_with(&op, Some(k));
                    let f = s.tl.0.borrow().faulted;
                    let Some(f) = f else {
                        a.inconclusive("fault position never reached in a display call");
                        continue;
                    };
                    a.seen("call_fault_sources", format!("{}/{}/{}", op.name(), tr.name(), src_name(f.src)));
                    let base = format!("{}/{}/{}", op.name(), tr.name(), src_name(f.src));
                    match &r.result {
                        CallResult::Ok => {
                            a.violate("calls", idx, format!("{}/error-swallowed", base), format!("returned Ok although operation {} of {} failed", k, nops), cj());
                            continue;
                        }
                        CallResult::Err(e) => {
                            if e.variant != expected_variant(f.src) || e.fault != f {
                                a.violate("calls", idx, format!("{}/wrong-variant", base), format!("{:?} failed; call returned {:?}", f, e), cj());
                                continue;
                            }
                        }
                        CallResult::Panic { msg, loc } => {
                            a.violate("calls", idx, format!("{}/panic@{}", base, loc), msg.clone(), cj());
                            continue;
                        }
                        CallResult::Budget { .. } => {
                            a.violate("calls", idx, format!("{}/no-termination", base), "budget exceeded".to_string(), cj());
                            continue;
                        }
                    }
                    if r.ops_after_fault != 0 {
                        a.violate("calls", idx, format!("{}/operations-after-fault", base), format!("{} further pin/bus operations after the failure", r.ops_after_fault), cj());
                        continue;
                    }
                    if matches!(op, Op::Sleep | Op::Wake) && s.rig.is_sleeping() != before_sleep {
                        a.violate("calls", idx, format!("{}/sleep-flag-changed", base), "is_sleeping changed by a failed call".to_string(), cj());
                        continue;
                    }
                    // the fault has cleared: re-issue mode-changing calls, then the display must draw correctly
                    let mut recovery: Vec<Op> = Vec::new();
                    // A failed set_orientation whose address-mode byte never reached the controller
                    // (the simulator's address mode is unchanged) must leave a display that still
                    // draws correctly in the *old* orientation. If the byte did arrive although the
                    // bus reported failure, driver and controller can only be re-synchronised by
                    // issuing the call again.
                    let orientation_delivered = matches!(op, Op::SetOrientation(_)) && s.panel.madctl != madctl_before;
                    // an undelivered set_orientation: half of the time simply try again (the retry
                    // must then really reach the controller), otherwise carry on in the old orientation
                    let retry_anyway = (k + idx) % 2 == 0;
                    let reissue = match &op {
                        Op::SetOrientation(_) => orientation_delivered || retry_anyway,
                        Op::Sleep | Op::Wake | Op::ScrollRegion(..) | Op::ScrollOffset(_) | Op::Tearing(_) => true,
                        _ => false,
                    };
                    // or, when the byte did arrive: the application gives up and restores the
                    // orientation the display still reports - that call must reach the controller
                    if orientation_delivered {
                        a.count("failed_set_orientation_whose_byte_arrived", 1);
                    }
                    let restore_old = orientation_delivered && (k + idx) % 3 == 0;
                    let reissue = reissue && !restore_old;
                    if restore_old {
                        recovery.push(Op::SetOrientation(s.rig.orientation()));
                        a.count("failed_set_orientation_previous_orientation_restored", 1);
                    }
                    if matches!(op, Op::SetOrientation(_)) {
                        a.count(if reissue { "failed_set_orientation_reissued" } else { "failed_set_orientation_old_orientation_checked" }, 1);
                    }
                    if reissue {
                        recovery.push(op.clone());
                    }
                    if matches!(op, Op::Sleep) {
                        recovery.push(Op::Wake);
                    }
                    if refill && !matches!(op, Op::SetOrientation(_)) {
                        recovery.push(Op::FillSolid { rect: Rect { x: 0, y: 0, w: (lw as u32).min(3), h: 1 }, c: 0x3C5A });
                    }
                    // a quarter of the cases: the application puts the panel to sleep and wakes it
                    // again before it goes on drawing (whatever a failed call left half-updated in
                    // the driver must not be replayed to the controller by these calls)
                    if (k + idx) % 4 == 1 && !matches!(op, Op::Sleep | Op::Wake) {
                        recovery.push(Op::Sleep);
                        recovery.push(Op::Wake);
                        a.count("recoveries_with_a_sleep_wake_cycle", 1);
                    }
                    recovery.push(Op::Clear { c: 0x1234 });
                    let (lw2, lh2) = s.reffb.lsize();
                    let (lw2, lh2) = match &op {
                        // after the re-issue the logical size follows the new orientation
                        Op::SetOrientation(o) if reissue && (o.rot() ^ cfg.ori.rot()) & 1 == 1 => (lh2, lw2),
                        _ => (lw2, lh2),
                    };
                    let mut r2 = Rng::new(idx ^ (k << 20));
                    let mut t2 = TagGen::new(&mut r2);
                    let po = ProgOpts { mode: Mode::InBounds, max_calls: 3, max_px: 64, allow_clear: false, allow_orient: false, allow_misc: false, allow_test_image: false, allow_set_pixels: true };
                    for _ in 0..3 {
                        recovery.extend(gen::gen_draw_op(&mut r2, lw2, lh2, m.bits(), &mut t2, &po));
                    }
                    // every third fault position: a *second* fault hits the first low-level operations of
                    // the next call as well; it must be reported, and the call after it must work
                    if k % 3 == 1 {
                        if let Some(first) = recovery.first().cloned() {
                            let k2 = (k / 3) % 12;
                            let r2 = s.step_with(&first, Some(k2));
                            if let CallResult::Panic { msg, loc } = &r2.result {
                                a.violate("calls", idx, format!("{}/second-fault/panic@{}", base, loc), msg.clone(), cj().with("second_fault_op", k2));
                                continue;
                            }
                            if r2.result == CallResult::Ok && s.tl.0.borrow().faulted.is_some() {
                                a.violate("calls", idx, format!("{}/second-fault/error-swallowed", base), format!("{} returned Ok although its operation {} failed", first.name(), k2), cj().with("second_fault_op", k2));
                                continue;
                            }
                            a.count("second_faults_injected", 1);
                            // a failed set_orientation retry may or may not have reached the controller:
                            // resynchronise by issuing it once more, fault-free
                            if let Op::SetOrientation(_) = &first {
                                if r2.result != CallResult::Ok {
                                    let rr = s.step(&first);
                                    if rr.result != CallResult::Ok {
                                        a.violate("calls", idx, format!("{}/second-fault/retry-failed", base), format!("{:?}", rr.result), cj());
                                        continue;
                                    }
                                    recovery.remove(0);
                                }
                            }
                        }
                    }
                    // and finally a later orientation change must still carry the configured colour and
                    // refresh order (checked by the session's address-mode monitor)
                    recovery.push(Op::SetOrientation(Ori(((k as u8) ^ (idx as u8)) % 8)));
                    recovery.push(Op::SetPixel { x: 0, y: 0, c: 0x0F0F });
                    let mut ok = true;
                    for rop in &recovery {
                        let rr = s.step(rop);
                        if let Some(fd) = rr.findings.first() {
                            a.violate("calls", idx, format!("{}/recovery/{}/{}", base, rop.name(), fd.kind()), format!("after the fault cleared: {}", fd.describe()), cj().with("recovery", gen::prog_json(&recovery)));
                            ok = false;
                            break;
                        }
                    }
                    if ok {
                        a.count("recoveries_checked", 1);
                    }
                    a.count("call_faults_checked", 1);
                }
            }
            if idx < 3 {
                a.sample(J::obj().with("config", cfg.to_json()).with("call", op.to_json()).with("fault_positions", nops));
            }
        });
        total.merge(acc);
    }
    total.notes.insert(
        "rule".into(),
        J::Str("case = (driver call, index k of the failing low-level operation, fault effect mode); every k of the fault-free run is enumerated; distinct = canonical description; all non-trivial".into()),
    );
    total
}
