//! One module per property family. Each returns an `Acc` with coverage,
//! violations (with signatures) and inconclusive reasons.

use crate::ev::Acc;
use crate::Args;

pub mod batch;
pub mod draw;

pub fn run(args: &Args) -> Option<Acc> {
    Some(match args.prop.as_str() {
        "C01" => draw::c01(args),
        "C02" => draw::c02(args),
        "C08" => draw::c08(args),
        "C03" => batch::c03(args),
        "C04" => batch::c04(args),
        "C20" => batch::c20(args),
        _ => return None,
    })
}
