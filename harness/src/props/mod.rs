//! One module per property family. Each returns an `Acc` with coverage,
//! violations (with signatures) and inconclusive reasons.

use crate::ev::Acc;
use crate::Args;

pub mod batch;
pub mod dcs;
pub mod draw;
pub mod faults;
pub mod init;
pub mod testimg;
pub mod transport;

pub fn run(args: &Args) -> Option<Acc> {
    Some(match args.prop.as_str() {
        "C01" => draw::c01(args),
        "C02" => draw::c02(args),
        "C08" => draw::c08(args),
        "C09" => init::c09(args),
        "C10" => init::c10(args),
        "C11" => init::c11(args),
        "C12" => faults::c12(args),
        "C13" => init::c13(args),
        "C14" => dcs::c14(args),
        "C15" => dcs::c15(args),
        "C16" => dcs::c16(args),
        "C17" => init::c17(args),
        "C18" => dcs::c18(args),
        "C19" => testimg::c19(args),
        "C05" => transport::c05(args),
        "C06" => transport::c06(args),
        "C07" => transport::c07(args),
        "C03" => batch::c03(args),
        "C04" => batch::c04(args),
        "C20" => batch::c20(args),
        _ => return None,
    })
}
