//! C03: draw_iter == set_pixel one by one (twin differential + reference).
//! C20: batching / buffering bounds. C04: fill_contiguous colour k on point k.

use crate::ev::{par_cases, Acc};
use crate::gen::{self, CfgOpts, Mode, TagGen};
use crate::json::J;
use crate::ops::{Op, Rect, Stream};
use crate::panel::PEv;
use crate::prng::Rng;
use crate::props::draw::{attr, case_hash, case_json, Attr};
use crate::rig::{CallResult, DispCfg, ModelId, Tr};
use crate::session::{ramwr_count, Finding, Opened, Session};
use crate::spec::Ori;
use crate::Args;

/// Window shapes that give the row (50) and block (100) accumulators room.
fn gen_cfg_batch(rng: &mut Rng, l1: bool) -> DispCfg {
    let o = CfgOpts { external: true, l1, l2: !l1, max_l2_area: 160 * 24 };
    let mut cfg = gen::gen_cfg(rng, &o);
    // prefer windows wider than 2x the row capacity
    let (fw, fh) = cfg.model.fb();
    if fw as u32 >= 128 && rng.chance(3, 4) {
        // at the Interface level windows may be several hundred pixels wide, so that runs and
        // blocks also occur at columns >= 256
        let wmax = if l1 { 700 } else { 160 };
        let hmax = if l1 { 120 } else { 24 };
        let w = rng.range(101, (fw as i64).min(wmax)) as u16;
        let h = rng.range(1, (fh as i64).min(hmax)) as u16;
        cfg.w = w;
        cfg.h = h;
        cfg.ox = rng.range(0, (fw - w) as i64) as u16;
        cfg.oy = rng.range(0, (fh - h) as i64) as u16;
        if rng.chance(1, 4) {
            cfg.ox = fw - w;
            cfg.oy = fh - h;
        }
    }
    cfg
}

fn lsize(cfg: &DispCfg) -> (i64, i64) {
    if cfg.ori.rot() & 1 == 0 {
        (cfg.w as i64, cfg.h as i64)
    } else {
        (cfg.h as i64, cfg.w as i64)
    }
}

/// (window, pixel count) of each RAMWR burst of a call
pub fn bursts(log: &[PEv]) -> Vec<((u16, u16, u16, u16), u64)> {
    log.iter()
        .filter_map(|e| match e {
            PEv::Burst { pixels, win, .. } => Some((*win, *pixels)),
            _ => None,
        })
        .collect()
}

/// Decompose a stream into maximal left-to-right runs of horizontally
/// adjacent same-row pixels.
pub fn maximal_runs(px: &[(i32, i32, u32)]) -> Vec<usize> {
    let mut runs = Vec::new();
    let mut cur = 0usize;
    for (i, p) in px.iter().enumerate() {
        if i > 0 && p.1 == px[i - 1].1 && p.0 as i64 == px[i - 1].0 as i64 + 1 {
            cur += 1;
        } else {
            if cur > 0 {
                runs.push(cur);
            }
            cur = 1;
        }
    }
    if cur > 0 {
        runs.push(cur);
    }
    runs
}

/// Evidence only: classify why each burst ended, from the outside.
fn classify_boundaries(a: &mut Acc, px: &[(i32, i32, u32)], bs: &[((u16, u16, u16, u16), u64)]) {
    let total: u64 = bs.iter().map(|b| b.1).sum();
    if total != px.len() as u64 {
        return;
    }
    let mut pos = 0usize;
    for (win, n) in bs {
        let rows = win.3.wrapping_sub(win.2).wrapping_add(1);
        let cols = win.1.wrapping_sub(win.0).wrapping_add(1);
        a.count(
            if *n == 1 {
                "burst_shape[single-pixel]"
            } else if rows == 1 {
                "burst_shape[single-row]"
            } else {
                "burst_shape[multi-row-block]"
            },
            1,
        );
        a.seen("burst_row_lengths", format!("{}", cols));
        pos += *n as usize;
        let cause = if pos >= px.len() {
            "end-of-stream"
        } else {
            let last = px[pos - 1];
            let next = px[pos];
            if next.1 == last.1 && next.0 == last.0 + 1 {
                "adjacent-right(capacity)"
            } else if next.1 == last.1 + 1 {
                "next-row(shape-change-or-block-full)"
            } else {
                "non-adjacent"
            }
        };
        a.count(&format!("burst_end_cause[{}]", cause), 1);
    }
}

pub fn c03(args: &Args) -> Acc {
    let mut total = Acc::new();
    for (stage, l1, n) in [("l2", false, args.n(25_000, 600_000)), ("l1", true, args.n(25_000, 600_000))] {
        if !args.want_stage(stage) {
            continue;
        }
        let tag = format!("C03/{}", stage);
        let acc = par_cases(n, args.threads, args.case, |idx, a| {
            let mut rng = Rng::for_case(args.seed, &tag, &args.tier, idx);
            let cfg = gen_cfg_batch(&mut rng, l1);
            let (lw, lh) = lsize(&cfg);
            let mut tags = TagGen::new(&mut rng);
            let maxpx = if crate::small() { 130 } else if args.quick() { 400 } else { 2000 };
            let mut px = gen::gen_pixel_stream(&mut rng, lw, lh, Mode::InBounds, &mut tags, maxpx, 50, 100);
            if rng.chance(1, 10) {
                // e-g primitives as streams
                if lw <= 512 && lh <= 512 {
                    if let Ok(ops) = crate::rig::guarded(|| crate::capture::prim_ops(lw as u32, lh as u32, cfg.model.bits(), &mut rng, 0)) {
                        for op in ops {
                            if let Op::DrawIter { pixels } = op {
                                if pixels.iter().all(|(x, y, _)| *x >= 0 && *y >= 0 && (*x as i64) < lw && (*y as i64) < lh) {
                                    px = pixels;
                                    px.truncate(maxpx);
                                }
                            }
                        }
                    }
                }
            }
            if rng.chance(1, 40) {
                px.clear();
            }
            // rarely (Interface level only): one draw_iter call that paints 2^16 pixels or more,
            // in one colour or in two halves (pixel counts held in 16 bits)
            let mut cfg = cfg;
            if l1 && !crate::small() && rng.chance(1, if args.quick() { 1500 } else { 6000 }) {
                cfg.model = *rng.pick(&[ModelId::Ext256x256, ModelId::ILI9341Rgb565, ModelId::ST7789]);
                if !cfg.tr.type_checks(cfg.model.bits()) || !cfg.model.supports(cfg.tr.kind()) {
                    cfg.tr = Tr::L1S;
                }
                let (fw, fh) = cfg.model.fb();
                cfg.w = fw;
                cfg.h = fh;
                cfg.ox = 0;
                cfg.oy = 0;
                let (lw, lh) = lsize(&cfg);
                let w = lw.min(256);
                let h = ((65_535 + rng.range(0, 3 * w)) / w).min(lh);
                let (c1, c2) = (tags.one(), if rng.bool() { tags.one() } else { 0 });
                px.clear();
                for y in 0..h {
                    for x in 0..w {
                        px.push((x as i32, y as i32, if c2 != 0 && y >= h / 2 { c2 } else { c1 }));
                    }
                }
                a.count("streams_of_2^16_pixels_or_more_in_one_or_two_colours", 1);
            }
            let cfg = cfg;
            let prog = vec![Op::DrawIter { pixels: px.clone() }];
            a.seen("models", cfg.model.name());
            a.seen("transports", cfg.tr.name());
            a.seen("orientations", cfg.ori.name());
            let cj = || case_json(&cfg, &prog);
            // A: the batched call
            let mut sa = match Session::open(&cfg) {
                Opened::Ready(s) => s,
                Opened::Failed { init, .. } => {
                    a.violate(stage, idx, "init", format!("init failed: {:?}", init), cj());
                    return;
                }
            };
            sa.keep_touched = true;
            // now and then the panel sleeps while it is drawn to (frame memory stays writable)
            let asleep = idx % 9 == 4;
            if asleep {
                let _ = sa.step(&Op::Sleep);
            }
            let ra = sa.step(&prog[0]);
            let mut bad = false;
            for f in &ra.findings {
                if attr(f) == Attr::Placement {
                    bad = true;
                    a.violate(stage, idx, format!("draw_iter/{}", f.kind()), f.describe(), cj());
                }
            }
            // B: the twin, one set_pixel per pixel in iterator order
            let mut sb = match Session::open(&cfg) {
                Opened::Ready(s) => s,
                Opened::Failed { .. } => return,
            };
            sb.keep_touched = true;
            if asleep {
                let _ = sb.step(&Op::Sleep);
            }
            for (x, y, c) in &px {
                let rb = sb.step(&Op::SetPixel { x: *x as u16, y: *y as u16, c: *c });
                if rb.result != CallResult::Ok {
                    a.inconclusive("twin set_pixel failed");
                    return;
                }
            }
            if !bad {
                let mut cells = std::mem::take(&mut sa.touched);
                cells.extend(std::mem::take(&mut sb.touched));
                let mut rep = 0;
                for (x, y) in &cells {
                    let ga = sa.panel.mem.get(*x, *y);
                    let gb = sb.panel.mem.get(*x, *y);
                    if ga != gb && rep < 3 {
                        rep += 1;
                        a.violate(
                            stage,
                            idx,
                            "draw_iter/twin-mismatch",
                            format!("framebuffer cell ({},{}) draw_iter={:?} set_pixel-twin={:?}", x, y, ga, gb),
                            cj(),
                        );
                    }
                }
                a.count("twin_cells_compared", cells.len() as u64);
            }
            let bs = bursts(&ra.log);
            a.count("bursts", bs.len() as u64);
            a.count("stream_pixels", px.len() as u64);
            if cfg!(feature = "batch") && !bad {
                classify_boundaries(a, &px, &bs);
            }
            a.case_hash(case_hash(&cfg, &prog), !px.is_empty() && !bad);
            if idx < 3 {
                a.sample(cj().with("stage", stage).with("bursts", bs.iter().map(|b| b.1).collect::<Vec<u64>>()));
            }
        });
        total.merge(acc);
    }
    if args.case.is_none() && args.stage.is_none() && cfg!(feature = "batch") {
        for c in [
            "burst_end_cause[end-of-stream]",
            "burst_end_cause[adjacent-right(capacity)]",
            "burst_end_cause[next-row(shape-change-or-block-full)]",
            "burst_end_cause[non-adjacent]",
            "burst_shape[multi-row-block]",
            "burst_shape[single-row]",
            "burst_shape[single-pixel]",
        ] {
            if total.counters.get(c).copied().unwrap_or(0) == 0 {
                total.inconclusive(format!("never observed {}", c));
            }
        }
    }
    total.notes.insert(
        "rule".into(),
        J::Str("case = (configuration, pixel stream) drawn once through draw_iter and once pixel by pixel on a twin display; distinct = hash of (configuration, stream); non-trivial = non-empty stream that ran to its end".into()),
    );
    total
}

// ------------------------------------------------------------------ C20

pub fn c20(args: &Args) -> Acc {
    let mut total = Acc::new();
    // (a) rectangle fills / clear: exactly one RAMWR per call with non-empty clipped area
    if args.want_stage("fills") {
        let n = args.n(30_000, 500_000);
        let acc = par_cases(n, args.threads, args.case, |idx, a| {
            let mut rng = Rng::for_case(args.seed, "C20/fills", &args.tier, idx);
            let mut cfg = gen::gen_cfg(&mut rng, &CfgOpts { external: true, l1: true, l2: true, max_l2_area: 1024 });
            let mut tags = TagGen::new(&mut rng);
            // at the Interface level fills of several hundred thousand pixels are one event
            let maxvis = if cfg.tr.is_l2() { 1024 } else { 1 << 22 };
            if !cfg.tr.is_l2() && rng.chance(1, 3) {
                // full-size panels: fills above 2^16 pixels
                let (fw, fh) = cfg.model.fb();
                cfg.w = fw;
                cfg.h = fh;
                cfg.ox = 0;
                cfg.oy = 0;
            }
            let (lw, lh) = lsize(&cfg);
            let r = if rng.chance(1, 4) {
                // most of the display, so that big panels see fills above 2^16 pixels
                let x = rng.range(-3, 3) as i32;
                let y = rng.range(-3, 3) as i32;
                Rect { x, y, w: (lw - rng.range(0, 12)).max(1) as u32, h: (lh - rng.range(0, 12)).max(1) as u32 }
            } else {
                gen::gen_rect(&mut rng, lw, lh, Mode::Hostile, maxvis)
            };
            // fills of up to 2^32 - 2^17 pixels on the 65535^2 models are one run event at the
            // Interface level; only a colour *stream* of that length is unaffordable
            let huge = lsize(&cfg).0 * lsize(&cfg).1 > (1 << 24) && r.area() > (1 << 24);
            let op = match if huge { 2 * rng.below(2) } else { rng.below(3) } {
                0 => Op::FillSolid { rect: r, c: tags.one() },
                1 => {
                    let vis = visible_area(&r, lw, lh);
                    if vis > 1 << 18 {
                        Op::FillSolid { rect: r, c: tags.one() }
                    } else {
                        Op::FillContiguous { rect: r, colors: Stream::Seq { start: tags.run(r.area()), step: 1, len: None } }
                    }
                }
                _ => {
                    if (lw * lh) as u64 <= maxvis || !cfg.tr.is_l2() {
                        Op::Clear { c: tags.one() }
                    } else {
                        Op::FillSolid { rect: r, c: tags.one() }
                    }
                }
            };
            let prog = vec![op.clone()];
            let mut s = match Session::open(&cfg) {
                Opened::Ready(s) => s,
                Opened::Failed { .. } => return,
            };
            let rep = s.step(&op);
            if rep.result != CallResult::Ok {
                return; // judged by C02
            }
            if huge {
                a.count("fills_above_2^24_pixels", 1);
            }
            let visible = match &op {
                Op::Clear { .. } => true,
                Op::FillSolid { rect, .. } | Op::FillContiguous { rect, .. } => s.reffb.clip(rect).is_some(),
                _ => false,
            };
            let n = ramwr_count(&rep.log);
            let want = if visible { 1 } else { 0 };
            a.count(if visible { "fills_visible" } else { "fills_empty" }, 1);
            if n != want {
                a.violate(
                    "fills",
                    idx,
                    format!("{}/window-setups", op.name()),
                    format!("{} memory-write-start commands for one {} (expected {})", n, op.name(), want),
                    case_json(&cfg, &prog),
                );
            }
            a.case_hash(case_hash(&cfg, &prog), visible);
            if idx < 2 {
                a.sample(case_json(&cfg, &prog).with("stage", "fills").with("ramwr", n));
            }
        });
        total.merge(acc);
    }
    // (b) draw_iter: window set-ups bounded by runs split at the *measured* capacity
    if args.want_stage("runs") {
        // measure the row capacity from one long run
        let cap = measure_row_capacity();
        total.notes.insert("measured_row_capacity".into(), J::Int(cap as i128));
        if cfg!(feature = "batch") && cap < 2 {
            total.violate(
                "runs",
                0,
                "draw_iter/row-capacity",
                format!("a long left-to-right run is sent in first bursts of {} pixel(s); batching promises at least 2", cap),
                J::obj().with("probe", "200-pixel run on ILI9341Rgb565/l1-serial"),
            );
        }
        let n = args.n(30_000, 500_000);
        let acc = par_cases(n, args.threads, args.case, |idx, a| {
            let mut rng = Rng::for_case(args.seed, "C20/runs", &args.tier, idx);
            let l1 = rng.bool();
            let cfg = gen_cfg_batch(&mut rng, l1);
            let (lw, lh) = lsize(&cfg);
            let mut tags = TagGen::new(&mut rng);
            let px = gen::gen_pixel_stream(&mut rng, lw, lh, Mode::InBounds, &mut tags, 600, cap.max(2) as i64, 2 * cap.max(2) as i64);
            let prog = vec![Op::DrawIter { pixels: px.clone() }];
            let mut s = match Session::open(&cfg) {
                Opened::Ready(s) => s,
                Opened::Failed { .. } => return,
            };
            let rep = s.step(&prog[0]);
            if rep.result != CallResult::Ok {
                return;
            }
            let n = ramwr_count(&rep.log);
            let runs = maximal_runs(&px);
            a.count("maximal_runs", runs.len() as u64);
            a.count("window_setups", n);
            a.count("stream_pixels", px.len() as u64);
            // never more than one per in-bounds pixel
            if n > px.len() as u64 {
                a.violate(
                    "runs",
                    idx,
                    "draw_iter/more-setups-than-pixels",
                    format!("{} window set-ups for {} pixels", n, px.len()),
                    case_json(&cfg, &prog),
                );
            }
            if cfg!(feature = "batch") && cap >= 1 {
                let bound: u64 = runs.iter().map(|l| ((*l as u64) + cap - 1) / cap).sum();
                if n > bound {
                    a.violate(
                        "runs",
                        idx,
                        "draw_iter/more-setups-than-runs",
                        format!(
                            "{} window set-ups; the stream has {} maximal left-to-right runs which need at most {} when split at the measured capacity {}",
                            n,
                            runs.len(),
                            bound,
                            cap
                        ),
                        case_json(&cfg, &prog),
                    );
                }
                if runs.iter().any(|l| *l as u64 > cap) {
                    a.count("streams_with_run_longer_than_capacity", 1);
                }
            }
            a.case_hash(case_hash(&cfg, &prog), !px.is_empty());
            if idx < 2 {
                a.sample(case_json(&cfg, &prog).with("stage", "runs").with("window_setups", n).with("maximal_runs", runs.len()));
            }
        });
        total.merge(acc);
    }
    // (c) SPI: a burst of b bytes in at most floor(b / usable) + 1 transactions
    if args.want_stage("spi") {
        let n = args.n(30_000, 500_000);
        let acc = par_cases(n, args.threads, args.case, |idx, a| {
            let mut rng = Rng::for_case(args.seed, "C20/spi", &args.tier, idx);
            let model = *rng.pick(&[ModelId::Ext256x256, ModelId::Ext240x320c666, ModelId::ILI9341Rgb565, ModelId::ILI9341Rgb666, ModelId::ST7789, ModelId::ILI9488Rgb565, ModelId::ST7796]);
            let mut cfg = DispCfg::full(model, Tr::Spi);
            cfg.spi_buf = gen::spi_buf_len(&mut rng, model.bits());
            cfg.ori = Ori(rng.below(8) as u8);
            let (lw, lh) = lsize(&cfg);
            let bpp = if model.bits() == 16 { 2u64 } else { 3 };
            let usable = (cfg.spi_buf as u64 / bpp) * bpp;
            let cap = usable / bpp;
            let counts = [1, 2, cap.saturating_sub(1).max(1), cap, cap + 1, 2 * cap, 2 * cap + 1, 3 * cap, 777];
            let big = cfg.spi_buf > 4096;
            // with a large transfer buffer: fills above 2^16 pixels too
            let want_px = if big && rng.bool() { (lw * lh) as u64 - rng.below(3) * lw as u64 } else { (*rng.pick(&counts)).clamp(1, (lw * lh) as u64).min(20_000) };
            // a rectangle of exactly/about want_px pixels
            let w = (want_px.min(lw as u64)).max(1);
            let h = ((want_px + w - 1) / w).clamp(1, lh as u64);
            let rect = Rect { x: 0, y: 0, w: w as u32, h: h as u32 };
            let mut tags = TagGen::new(&mut rng);
            let op = match rng.below(3) {
                0 => Op::FillSolid { rect, c: tags.one() },
                1 => Op::FillContiguous { rect, colors: Stream::Seq { start: tags.run(rect.area()), step: 1, len: None } },
                _ => Op::SetPixels {
                    sx: 0,
                    sy: 0,
                    ex: (w - 1) as u16,
                    ey: (h - 1) as u16,
                    colors: Stream::Seq { start: tags.run(rect.area()), step: 1, len: Some(rect.area()) },
                },
            };
            
            let mut s = match Session::open(&cfg) {
                Opened::Ready(s) => s,
                Opened::Failed { .. } => return,
            };
            // what happened before the measured call must not matter: a smaller or larger fill of
            // the same or another colour, a streamed burst, a call that failed on the bus
            let mut history = Vec::new();
            for _ in 0..rng.below(3) {
                let hw = rng.range(1, lw.min(40)) as u32;
                let hh = rng.range(1, lh.min(6)) as u32;
                let hrect = Rect { x: rng.range(0, lw - hw as i64) as i32, y: rng.range(0, lh - hh as i64) as i32, w: hw, h: hh };
                let same_colour = match &op {
                    Op::FillSolid { c, .. } if rng.bool() => Some(*c),
                    _ => None,
                };
                let h = match rng.below(3) {
                    0 => Op::FillContiguous { rect: hrect, colors: Stream::Seq { start: tags.run(hrect.area()), step: 1, len: None } },
                    _ => Op::FillSolid { rect: hrect, c: same_colour.unwrap_or_else(|| tags.one()) },
                };
                let fail = if rng.chance(1, 3) { Some(rng.below(24)) } else { None };
                let r = s.step_with(&h, fail);
                if r.result == CallResult::Ok {
                    a.count("spi_history_calls_ok", 1);
                } else if fail.is_some() {
                    a.count("spi_history_calls_failed_on_the_bus", 1);
                } else {
                    return;
                }
                history.push(h);
            }
            let prog: Vec<Op> = history.iter().cloned().chain(std::iter::once(op.clone())).collect();
            s.tl.b().raw_on = true;
            s.tl.b().raw.clear();
            let rep = s.step(&op);
            if rep.result != CallResult::Ok {
                return;
            }
            // transactions after the RAMWR instruction byte = data-phase
            // transactions that follow the last DC-low write
            let raw = std::mem::take(&mut s.tl.b().raw);
            let mut after_cmd = 0u64;
            let mut bytes = 0u64;
            for r in &raw {
                if let crate::hal::Raw::SpiTxn { bytes: b, dc, .. } = r {
                    if *dc == Some(false) {
                        after_cmd = 0;
                        bytes = 0;
                    } else {
                        after_cmd += 1;
                        bytes += *b as u64;
                    }
                }
            }
            // the RAMWR command has no parameters; its (empty) parameter write is one transaction
            let data_txns = after_cmd.saturating_sub(1);
            let b = rect.area() * bpp;
            let bound = b / usable + 1;
            a.count("spi_bursts", 1);
            a.count("spi_burst_bytes", bytes);
            a.count("spi_data_transactions", data_txns);
            a.seen("spi_buffer_lengths", format!("{}", cfg.spi_buf));
            if bytes == b && data_txns > bound {
                a.violate(
                    "spi",
                    idx,
                    format!("{}/spi-transactions", op.name()),
                    format!("{} bytes sent in {} transactions with a {}-byte buffer ({} usable); bound {}", b, data_txns, cfg.spi_buf, usable, bound),
                    case_json(&cfg, &prog),
                );
            }
            a.case_hash(case_hash(&cfg, &prog), true);
            if idx < 2 {
                a.sample(case_json(&cfg, &prog).with("stage", "spi").with("bytes", b).with("transactions", data_txns).with("bound", bound));
            }
        });
        total.merge(acc);
    }
    total.notes.insert(
        "rule".into(),
        J::Str("case = (configuration, one drawing call); distinct = hash of both; non-trivial = the call had a non-empty visible area / non-empty stream".into()),
    );
    total
}

/// First-burst size of a 200-pixel left-to-right run.
pub fn measure_row_capacity() -> u64 {
    let cfg = DispCfg::full(ModelId::ILI9341Rgb565, Tr::L1S);
    let Opened::Ready(mut s) = Session::open(&cfg) else { return 0 };
    let px: Vec<(i32, i32, u32)> = (0..200).map(|i| (i, 3, 1000 + i as u32)).collect();
    let rep = s.step(&Op::DrawIter { pixels: px });
    bursts(&rep.log).first().map(|b| b.1).unwrap_or(0)
}

// ------------------------------------------------------------------ C04

pub fn c04(args: &Args) -> Acc {
    let mut total = Acc::new();
    let n = args.n(60_000, 2_000_000);
    let acc = par_cases(n, args.threads, args.case, |idx, a| {
        let mut rng = Rng::for_case(args.seed, "C04", &args.tier, idx);
        let mut cfg = gen::gen_cfg(&mut rng, &CfgOpts { external: true, l1: true, l2: true, max_l2_area: 1024 });
        // at the Interface level, now and then a full-size panel with more than 2^16 visible points
        let large = !cfg.tr.is_l2() && !crate::small() && rng.chance(1, 12);
        if large {
            let (fw, fh) = cfg.model.fb();
            cfg.w = fw.min(700);
            cfg.h = fh.min(700);
            cfg.ox = 0;
            cfg.oy = 0;
        }
        // more than 2^31 *visible* points (65535 x 65535 panels): the stream ends a few thousand
        // colours after the first visible point, the rest must stay untouched
        let vast = !cfg.tr.is_l2() && !crate::small() && !large && rng.chance(1, 40);
        if vast {
            // same colour format as the drawn configuration (it was chosen to fit the transport)
            cfg.model = if cfg.model.bits() == 18 { ModelId::Ext65535c666 } else { *rng.pick(&[ModelId::Ext65535, ModelId::Ext32768]) };
            let (fw, fh) = cfg.model.fb();
            cfg.w = fw;
            cfg.h = fh;
            cfg.ox = 0;
            cfg.oy = 0;
        }
        let (lw, lh) = lsize(&cfg);
        let maxvis = if cfg.tr.is_l2() { 1024 } else if large { 1 << 19 } else { 8192 };
        let mut rect;
        let mut lvi;
        loop {
            if vast {
                let (dx, dy) = (rng.range(-3, 3), rng.range(-3, 3));
                let w = (lw - dx.max(0) - rng.range(0, 20) + rng.range(0, 4) * rng.below(2) as i64).max(1);
                let h = (((1i64 << 31) + rng.range(-70_000, 1 << 30)) / w.min(lw)).min(65_600).max(1);
                rect = Rect { x: dx as i32, y: dy as i32, w: w as u32, h: h as u32 };
                if rect.area() >= (1 << 32) {
                    continue;
                }
                lvi = gen::last_visible_index(&rect, lw, lh);
                break;
            }
            rect = gen::gen_rect(&mut rng, lw, lh, Mode::Hostile, maxvis);
            if large && rng.bool() {
                // overlapping one or two edges and covering most of the display
                rect = Rect { x: rng.range(-5, 2) as i32, y: rng.range(-5, 2) as i32, w: (lw + rng.range(-3, 6)).max(1) as u32, h: (lh + rng.range(-3, 6)).max(1) as u32 };
            }
            lvi = gen::last_visible_index(&rect, lw, lh);
            if lvi.is_none() && rng.chance(4, 5) {
                continue; // keep some invisible rectangles, but not half of all cases
            }
            // O(1) stream skipping: only the visible part costs time
            if !crate::small() || lvi.unwrap_or(0) <= 300 {
                break;
            }
        }
        let area = rect.area();
        // skip = points before the first visible one
        let skip = first_visible_index(&rect, lw, lh).unwrap_or(0);
        let lens: [Option<u64>; 10] = [
            Some(0),
            Some(1),
            Some(skip.saturating_sub(1)),
            Some(skip),
            Some(skip + 1),
            Some(area.saturating_sub(1)),
            Some(area),
            Some(area + 7),
            None,
            Some(rng.range(0, area.min(1 << 40) as i64) as u64),
        ];
        let mut len = *rng.pick(&lens);
        // a finite stream longer than needed costs a correct driver nothing, but the
        // reference and the driver only ever look at indices <= last visible
        if let Some(l) = len {
            if l > (1 << 33) {
                len = None;
            }
        }
        // gigantic rectangles: a driver that consumes the colours of every clipped point
        // satisfies the property too; keep that affordable with a stream that ends soon
        // after the last visible point
        if area > (1 << 24) && len.map(|l| l > lvi.unwrap_or(0) + 8).unwrap_or(true) {
            len = Some(lvi.map(|i| i + 1 + rng.below(8)).unwrap_or(rng.below(8)));
        }
        if vast {
            len = Some(skip + rng.below(5000));
            a.count("rectangles_with_2^31_visible_points_or_more", (visible_area(&rect, lw, lh) >= (1 << 31)) as u64);
        }
        let mut tags = TagGen::new(&mut rng);
        let start = tags.one();
        let colors = if rng.chance(1, 2) { Stream::Hash { seed: start, len } } else { Stream::Seq { start, step: 1, len } };
        let op = Op::FillContiguous { rect, colors };
        let prog = vec![op.clone()];
        a.seen("clip_classes", gen::clip_class(&rect, lw, lh));
        a.seen(
            "stream_length_classes",
            match len {
                None => "infinite".to_string(),
                Some(l) if l == 0 => "0".to_string(),
                Some(l) if l < skip => "<skip".to_string(),
                Some(l) if l == skip => "=skip".to_string(),
                Some(l) if l < area => "<area".to_string(),
                Some(l) if l == area => "=area".to_string(),
                _ => ">area".to_string(),
            },
        );
        a.seen("transports", cfg.tr.name());
        a.seen("models", cfg.model.name());
        let mut s = match Session::open(&cfg) {
            Opened::Ready(s) => s,
            Opened::Failed { init, .. } => {
                a.violate("main", idx, "init", format!("{:?}", init), case_json(&cfg, &prog));
                return;
            }
        };
        // pre-paint so that "leaves the remaining points untouched" is observable
        if (lw * lh) as u64 <= maxvis || !cfg.tr.is_l2() {
            let _ = s.step(&Op::Clear { c: 0x0841 });
        }
        let rep = s.step(&op);
        let mut bad = false;
        for f in &rep.findings {
            if matches!(attr(f), Attr::Placement) || matches!(f, Finding::Panel(_)) {
                bad = true;
                a.violate("main", idx, format!("fill_contiguous/{}", f.kind()), f.describe(), case_json(&cfg, &prog));
            }
        }
        // colours pulled: evidence (the property only says surplus is ignored); an
        // unbounded stream must still terminate within a bounded number of pulls
        let pulled = s.rig.pulled();
        let needed = lvi.map(|i| i + 1).unwrap_or(0);
        if rep.result == CallResult::Ok {
            let over = pulled.saturating_sub(needed.min(len.unwrap_or(u64::MAX)));
            a.count("colours_pulled", pulled);
            let e = a.counters.entry("max_overpull".to_string()).or_insert(0);
            *e = (*e).max(over);
        }
        a.case_hash(case_hash(&cfg, &prog), lvi.is_some() && len != Some(0) && !bad);
        if idx < 4 {
            a.sample(case_json(&cfg, &prog).with("pulled", pulled).with("needed", needed));
        }
    });
    total.merge(acc);
    if args.case.is_none() {
        let c = total.sets.get("clip_classes").map(|s| s.len()).unwrap_or(0);
        if c < 25 {
            total.inconclusive(format!("only {} of 36 rectangle/edge overlap classes observed", c));
        }
    }
    total.notes.insert(
        "rule".into(),
        J::Str("case = (configuration, rectangle, colour stream whose k-th colour encodes k); distinct = hash; non-trivial = some point visible and stream non-empty".into()),
    );
    total
}

fn first_visible_index(r: &Rect, lw: i64, lh: i64) -> Option<u64> {
    if r.w == 0 || r.h == 0 {
        return None;
    }
    let x0 = (r.x as i64).max(0);
    let y0 = (r.y as i64).max(0);
    let x1 = (r.x as i64 + r.w as i64 - 1).min(lw - 1);
    let y1 = (r.y as i64 + r.h as i64 - 1).min(lh - 1);
    if x0 > x1 || y0 > y1 {
        return None;
    }
    Some((y0 - r.y as i64) as u64 * r.w as u64 + (x0 - r.x as i64) as u64)
}

fn visible_area(r: &Rect, lw: i64, lh: i64) -> u64 {
    let x0 = (r.x as i64).max(0);
    let y0 = (r.y as i64).max(0);
    let x1 = (r.x as i64 + r.w as i64 - 1).min(lw - 1);
    let y1 = (r.y as i64 + r.h as i64 - 1).min(lh - 1);
    if r.w == 0 || r.h == 0 || x0 > x1 || y0 > y1 {
        0
    } else {
        ((x1 - x0 + 1) * (y1 - y0 + 1)) as u64
    }
}
