//! C09 init accept/reject, C11 post-init controller state, C17 reset first,
//! C13 sleep tracking and spacing, C10 runtime orientation change.

use crate::ev::{par_cases, Acc};
use crate::gen::{self, CfgOpts, Mode, ProgOpts};
use crate::hal::{Effect, Tl};
use crate::json::J;
use crate::ops::Op;
use crate::panel::PEv;
use crate::prng::Rng;
use crate::props::draw::{case_hash, case_json};
use crate::rig::{
    self, CallResult, DispCfg, InitResult, Kind, ModelId, Tr, ALL_TR, EXTERNAL,
};
use crate::session::{Finding, Opened, Session};
use crate::spec::{self, Ori};
use crate::Args;

const MS: u64 = 1_000_000;

// ------------------------------------------------------------------ C09

/// u64 re-statement of the acceptance rule.
fn classify(fw: u64, fh: u64, w: u64, h: u64, ox: u64, oy: u64) -> InitResult {
    if w == 0 || h == 0 || w > fw || h > fh {
        InitResult::InvalidSize
    } else if w + ox > fw || h + oy > fh {
        InitResult::InvalidOffset
    } else {
        InitResult::Ok
    }
}

fn c09_one(a: &mut Acc, stage: &str, idx: u64, cfg: &DispCfg) {
    // acceptance must not depend on the other options or on the order of the builder calls
    let mut cfg = cfg.clone();
    let h = idx.wrapping_mul(0x9E37_79B9_7F4A_7C15) >> 20;
    cfg.ori = Ori((h % 8) as u8);
    cfg.bgr = (h >> 3) & 1 == 1;
    cfg.refresh = ((h >> 4) % 4) as u8;
    cfg.invert = (h >> 6) & 1 == 1;
    cfg.order = if (h >> 7) & 1 == 1 { 0 } else { ((h >> 8) % 10_080) as u16 };
    let cfg = &cfg;
    let (fw, fh) = cfg.model.fb();
    let want = classify(fw as u64, fh as u64, cfg.w as u64, cfg.h as u64, cfg.ox as u64, cfg.oy as u64);
    let class = match want {
        InitResult::Ok => "accept",
        InitResult::InvalidSize => "reject-size",
        _ => "reject-offset",
    };
    a.count(&format!("expected[{}]", class), 1);
    if cfg.ox as u64 + cfg.w as u64 > 65535 || cfg.oy as u64 + cfg.h as u64 > 65535 {
        a.count("offset_plus_size_exceeds_u16", 1);
    }
    let desc = format!("{:?}/{:?}/{}x{}+{}+{}/{}/{}/{}", cfg.model, cfg.tr, cfg.w, cfg.h, cfg.ox, cfg.oy, cfg.rst, cfg.ori.0, cfg.order);
    a.case(&desc, true);
    // a pairing the model refuses: a window that does not fit is still reported as such, with
    // the hardware untouched; what happens with a window that fits is C11's business
    let refused_pairing = cfg.model.is_builtin() && !cfg.model.supports(cfg.tr.kind());
    if refused_pairing {
        if want == InitResult::Ok {
            return;
        }
        a.count("rejections_checked_on_a_pairing_the_model_refuses", 1);
    }
    match Session::open(cfg) {
        Opened::Ready(_) => {
            if want != InitResult::Ok {
                a.violate(stage, idx, format!("accepted/{}", class), format!("init accepted a window that must be rejected ({:?})", want), cfg.to_json());
            }
        }
        Opened::Failed { init, tl, .. } => {
            if init != want {
                a.violate(stage, idx, format!("{}/got-{:?}", class, std::mem::discriminant(&init)), format!("init returned {:?}, rule says {:?}", init, want), cfg.to_json());
                return;
            }
            let t = tl.0.borrow();
            if t.ops != 0 || t.delay_calls != 0 || t.pin_writes != 0 || t.l1_calls != 0 || t.spi_txns != 0 || !t.bus.is_empty() {
                a.violate(
                    stage,
                    idx,
                    "rejected-after-touching-hardware",
                    format!(
                        "rejected with {:?} but hardware was touched: {} fallible ops, {} delay calls, {} pin writes, {} interface calls",
                        init, t.ops, t.delay_calls, t.pin_writes, t.l1_calls
                    ),
                    cfg.to_json(),
                );
            }
            a.count("rejections_with_untouched_hardware", 1);
        }
    }
}

pub fn c09(args: &Args) -> Acc {
    let mut total = Acc::new();
    // exhaustive for tiny framebuffers
    if args.want_stage("tiny") {
        let tiny = [ModelId::Ext1x1, ModelId::Ext2x3, ModelId::Ext7x5];
        let mut cases: Vec<DispCfg> = Vec::new();
        for m in tiny {
            let (fw, fh) = m.fb();
            for w in 0..=fw + 2 {
                for h in 0..=fh + 2 {
                    for ox in 0..=fw + 2 {
                        for oy in 0..=fh + 2 {
                            for rst in [false, true] {
                                let mut c = DispCfg::full(m, Tr::L1S);
                                c.w = w;
                                c.h = h;
                                c.ox = ox;
                                c.oy = oy;
                                c.rst = rst;
                                cases.push(c);
                            }
                        }
                    }
                }
            }
        }
        let acc = par_cases(cases.len() as u64, args.threads, args.case, |idx, a| {
            c09_one(a, "tiny", idx, &cases[idx as usize]);
            if idx % 5000 == 17 {
                a.sample(cases[idx as usize].to_json());
            }
        });
        total.merge(acc);
        total.notes.insert("exhaustive_tiny".into(), J::Str("all (w,h,ox,oy) in [0,F+2]^4 for 1x1, 2x3 and 7x5 framebuffers, with and without reset pin".into()));
    }
    // boundary grid for every model
    if args.want_stage("grid") {
        let mut models: Vec<ModelId> = crate::rig::builtin();
        models.extend(EXTERNAL);
        let vals = |f: u16| -> Vec<u16> {
            let f = f as u32;
            let mut v: Vec<u32> = vec![0, 1, f.saturating_sub(1), f, f + 1, 65535 - f, 65535 - f + 1, 32768, 65534, 65535];
            v.iter_mut().for_each(|x| *x = (*x).min(65535));
            let mut v: Vec<u16> = v.into_iter().map(|x| x as u16).collect();
            v.sort_unstable();
            v.dedup();
            v
        };
        let per_model: Vec<(ModelId, Vec<u16>, Vec<u16>)> = models.iter().map(|m| (*m, vals(m.fb().0), vals(m.fb().1))).collect();
        let mut index: Vec<(usize, u64)> = Vec::new(); // (model, count)
        for (i, (_, xs, ys)) in per_model.iter().enumerate() {
            index.push((i, (xs.len() * xs.len() * ys.len() * ys.len()) as u64));
        }
        let totaln: u64 = index.iter().map(|x| x.1).sum();
        let acc = par_cases(totaln, args.threads, args.case, |idx, a| {
            let mut k = idx;
            let mut mi = 0;
            for (i, n) in &index {
                if k < *n {
                    mi = *i;
                    break;
                }
                k -= *n;
            }
            let (m, xs, ys) = &per_model[mi];
            let (nx, ny) = (xs.len() as u64, ys.len() as u64);
            let w = xs[(k % nx) as usize];
            let ox = xs[((k / nx) % nx) as usize];
            let h = ys[((k / (nx * nx)) % ny) as usize];
            let oy = ys[((k / (nx * nx * ny)) % ny) as usize];
            let trs: Vec<Tr> = ALL_TR.iter().copied().filter(|t| t.type_checks(m.bits())).collect();
            let tr = trs[(idx % trs.len() as u64) as usize];
            let mut c = DispCfg::full(*m, tr);
            c.w = w;
            c.h = h;
            c.ox = ox;
            c.oy = oy;
            c.rst = (idx / 3) % 2 == 0;
            a.seen("models", m.name());
            a.seen("transports", tr.name());
            c09_one(a, "grid", idx, &c);
            if idx % 40_000 == 3 {
                a.sample(c.to_json());
            }
        });
        total.merge(acc);
    }
    if args.want_stage("random") {
        let n = args.n(1_000_000, 30_000_000);
        let mut models: Vec<ModelId> = crate::rig::builtin();
        models.extend(EXTERNAL);
        let acc = par_cases(n, args.threads, args.case, |idx, a| {
            let mut rng = Rng::for_case(args.seed, "C09/random", &args.tier, idx);
            let m = *rng.pick(&models);
            let (fw, fh) = m.fb();
            let pick = |rng: &mut Rng, f: u16| -> u16 {
                match rng.below(4) {
                    0 => rng.next() as u16,
                    1 => rng.range(0, f as i64 + 2).min(65535) as u16,
                    2 => (65535 - rng.range(0, f as i64 + 2)).max(0) as u16,
                    _ => rng.range((f as i64 - 3).max(0), (f as i64 + 3).min(65535)) as u16,
                }
            };
            let mut c = DispCfg::full(m, if m.bits() == 16 { *rng.pick(&[Tr::L1S, Tr::L1P8, Tr::L1P16]) } else { *rng.pick(&[Tr::L1S, Tr::L1P8]) });
            if m.is_builtin() && !m.supports(c.tr.kind()) && rng.bool() {
                c.tr = Tr::L1P8;
            }
            c.w = pick(&mut rng, fw);
            c.h = pick(&mut rng, fh);
            c.ox = pick(&mut rng, fw);
            c.oy = pick(&mut rng, fh);
            c.rst = rng.bool();
            c09_one(a, "random", idx, &c);
        });
        total.merge(acc);
    }
    total.notes.insert(
        "rule".into(),
        J::Str("case = (model, transport, width, height, offset_x, offset_y, reset pin); distinct = canonical description; every case is non-trivial (it has a definite expected classification)".into()),
    );
    total
}

// ------------------------------------------------------------------ C11 + C17 shared

fn last_cmd_time(log: &[PEv], opc: u8) -> Option<u64> {
    log.iter().rev().find_map(|e| match e {
        PEv::Cmd { op, t, page: 0, .. } if *op == opc => Some(*t),
        _ => None,
    })
}

/// C17 automaton over the init timeline.
fn reset_monitor(log: &[PEv], rst: bool) -> Result<(), (String, String)> {
    let soft: Vec<usize> = log
        .iter()
        .enumerate()
        .filter_map(|(i, e)| match e {
            PEv::Cmd { op: 0x01, page: 0, .. } => Some(i),
            _ => None,
        })
        .collect();
    let first_cmd = log.iter().position(|e| matches!(e, PEv::Cmd { .. }));
    let rsts: Vec<(usize, bool, u64)> = log
        .iter()
        .enumerate()
        .filter_map(|(i, e)| match e {
            PEv::Rst { level, t } => Some((i, *level, *t)),
            _ => None,
        })
        .collect();
    if rst {
        // the pulse = last falling edge before the first bus event, and the rising edge after it
        let limit = first_cmd.unwrap_or(log.len());
        let Some(low) = rsts.iter().rev().find(|r| !r.1 && r.0 < limit) else {
            if rsts.iter().any(|r| !r.1) {
                return Err(("bus-before-reset".into(), "the reset pin was driven low only after something was put on the bus".into()));
            }
            return Err(("reset-pulse-missing".into(), format!("{} reset pin writes, none of them low", rsts.len())));
        };
        let Some(high) = rsts.iter().find(|r| r.1 && r.0 > low.0) else {
            return Err(("reset-not-released".into(), "the reset pin is never driven high after the low pulse".into()));
        };
        if high.2 - low.2 < 10_000 {
            return Err(("reset-pulse-too-short".into(), format!("reset low for {} ns (< 10 us)", high.2 - low.2)));
        }
        if let Some(fc) = first_cmd {
            if fc < high.0 {
                return Err(("bus-before-reset-released".into(), format!("bus command at timeline index {} before the reset pin went high (index {})", fc, high.0)));
            }
        }
        if rsts.iter().any(|r| !r.1 && r.0 > high.0) {
            return Err(("reset-low-again".into(), "the reset pin is driven low again after the pulse".into()));
        }
        if !soft.is_empty() {
            return Err(("soft-reset-with-reset-pin".into(), format!("{} software reset command(s) although a reset pin is configured", soft.len())));
        }
    } else {
        if !rsts.is_empty() {
            return Err(("reset-pin-without-pin".into(), "reset pin events without a reset pin".into()));
        }
        match first_cmd {
            Some(i) => match &log[i] {
                PEv::Cmd { op: 0x01, params, page: 0, .. } if params.is_empty() => {}
                other => return Err(("first-command-not-soft-reset".into(), format!("first bus event is {:?}", other))),
            },
            None => return Err(("no-soft-reset".into(), "nothing on the bus".into())),
        }
        if soft.len() != 1 {
            return Err(("soft-reset-count".into(), format!("{} software reset commands", soft.len())));
        }
    }
    Ok(())
}

fn post_init_checks(s: &Session, cfg: &DispCfg) -> Vec<(String, String)> {
    let mut v = Vec::new();
    let p = &s.panel;
    if p.page != 0 {
        v.push(("left-on-vendor-page".into(), format!("controller left on command page {}", p.page)));
    }
    if p.sleeping {
        v.push(("still-sleeping".into(), "controller still in sleep mode after init".into()));
    }
    if !p.display_on {
        v.push(("display-off".into(), "display not switched on after init".into()));
    }
    let want = spec::madctl(cfg.bgr, cfg.ori, cfg.refresh & 1 != 0, cfg.refresh & 2 != 0);
    if p.madctl != want {
        v.push(("address-mode".into(), format!("address mode {:#04x}, options encode to {:#04x}", p.madctl, want)));
    }
    let wc = spec::colmod(cfg.model.bits());
    if p.colmod != wc {
        v.push(("pixel-format".into(), format!("pixel format {:#04x}, colour type needs {:#04x}", p.colmod, wc)));
    }
    if p.inverted != cfg.invert {
        v.push(("inversion".into(), format!("inversion {} but option says {}", p.inverted, cfg.invert)));
    }
    if p.pixels != 0 || p.ramwr_count != 0 {
        v.push(("wrote-pixel-memory".into(), format!("{} memory-write commands, {} pixels during init", p.ramwr_count, p.pixels)));
    }
    match last_cmd_time(&s.init_log, 0x11) {
        None => v.push(("no-sleep-out".into(), "no sleep-out command during init".into())),
        Some(t) => {
            if s.t_init_return < t + 120 * MS {
                v.push(("returned-early-after-sleep-out".into(), format!("init returned {} us after sleep-out (< 120 ms)", (s.t_init_return - t) / 1000)));
            }
        }
    }
    for f in &s.init_findings {
        v.push((format!("init-{}", f.kind()), f.describe()));
    }
    v
}

fn opt_grid(idx: u64) -> (bool, Ori, bool, u8) {
    // 2 colour orders x 8 orientations x 2 inversions x 4 refresh orders = 128
    let k = idx % 128;
    (k & 1 != 0, Ori(((k >> 1) & 7) as u8), (k >> 4) & 1 != 0, ((k >> 5) & 3) as u8)
}

pub fn c11(args: &Args) -> Acc {
    let mut total = Acc::new();
    // (a) through Builder, every type-checking pairing, L1 (exhaustive option grid) and L2
    if args.want_stage("builder") {
        let mut combos: Vec<(ModelId, Tr)> = Vec::new();
        for m in crate::rig::builtin() {
            for t in ALL_TR {
                if t.type_checks(m.bits()) {
                    combos.push((m, t));
                }
            }
        }
        // x 128 option sets x {full, offset window} x {rst, none}
        let per = 128 * 2 * 2;
        let n = combos.len() as u64 * per;
        let acc = par_cases(n, args.threads, args.case, |idx, a| {
            let (m, t) = combos[(idx / per) as usize];
            let k = idx % per;
            // L2 is ~50x more expensive: sample 1/4 there in the quick tier
            if args.quick() && t.is_l2() && k % 4 != 1 {
                return;
            }
            let (bgr, ori, invert, refresh) = opt_grid(k);
            let mut cfg = DispCfg::full(m, t);
            cfg.bgr = bgr;
            cfg.ori = ori;
            cfg.invert = invert;
            cfg.refresh = refresh;
            cfg.rst = (k / 128) % 2 == 0;
            if (k / 256) % 2 == 1 {
                let (fw, fh) = m.fb();
                // real-world module sizes and an arbitrary one, centred / offset
                let sizes: [(u16, u16); 8] = [(fw - 7, fh - 20), (80, 160), (128, 128), (128, 160), (135, 240), (240, 240), (172, 320), (240, 280)];
                let (w, h) = sizes[(k % 8) as usize];
                cfg.w = w.min(fw);
                cfg.h = h.min(fh);
                cfg.ox = (fw - cfg.w) / 2;
                cfg.oy = (fh - cfg.h) / 2;
            }
            cfg.spi_buf = [64, 3, 17, 512][(k % 4) as usize].max(if m.bits() == 16 { 2 } else { 3 });
            cfg.order = if k % 3 == 0 { 0 } else { ((idx.wrapping_mul(2_654_435_761) >> 7) % 10_080) as u16 };
            let supported = m.supports(t.kind());
            a.seen("model_kind", format!("{}/{:?}:{}", m.name(), t.kind(), if supported { "supported" } else { "refused" }));
            a.seen("transports", t.name());
            let desc = format!("{:?}", cfg);
            match Session::open(&cfg) {
                Opened::Failed { init, tl, panel } => {
                    a.case(&desc, true);
                    if supported {
                        a.violate("builder", idx, format!("supported-pairing-refused/{}/{:?}", m.name(), t.kind()), format!("{:?}", init), cfg.to_json());
                    } else if init != InitResult::Unsupported {
                        a.violate("builder", idx, format!("unsupported-wrong-error/{}", m.name()), format!("{:?}", init), cfg.to_json());
                    } else {
                        // refused: nothing but the reset may have happened
                        let model_cmds = panel.cmds - panel.op_hist[0x01] as u64;
                        if model_cmds != 0 {
                            a.violate(
                                "builder",
                                idx,
                                format!("refused-after-commands/{}", m.name()),
                                format!("{} model commands / {} delay calls before UnsupportedInterface", model_cmds, tl.0.borrow().delay_calls),
                                cfg.to_json(),
                            );
                        }
                        a.count("refusals_checked", 1);
                    }
                }
                Opened::Ready(mut s) => {
                    a.case(&desc, true);
                    if !supported {
                        a.violate("builder", idx, format!("unsupported-pairing-accepted/{}/{:?}", m.name(), t.kind()), "init succeeded on an interface kind the committed support matrix lists as refused".to_string(), cfg.to_json());
                        return;
                    }
                    for (sig, detail) in post_init_checks(&s, &cfg) {
                        a.violate("builder", idx, format!("{}/{}", sig, m.name()), detail, cfg.to_json());
                    }
                    // the value returned by Model::init is the display's cached copy: re-setting the
                    // same orientation must put the same byte on the bus
                    // (a different orientation, so that a driver which skips redundant writes still
                    // has to send; colour order and refresh bits come from the cached copy)
                    let other = Ori((cfg.ori.0 + 1 + (k % 7) as u8) % 8);
                    let rep = s.step(&Op::SetOrientation(other));
                    let want = spec::madctl(cfg.bgr, other, cfg.refresh & 1 != 0, cfg.refresh & 2 != 0);
                    let got = rep.log.iter().find_map(|e| match e {
                        PEv::Cmd { op: 0x36, params, .. } if params.len() == 1 => Some(params[0]),
                        _ => None,
                    });
                    match got {
                        Some(b) if rep.result == CallResult::Ok && b != want => a.violate(
                            "builder",
                            idx,
                            format!("cached-address-mode/{}", m.name()),
                            format!("the first set_orientation({}) after init sent {:#04x}; colour order and refresh order as initialised encode to {:#04x}: the address mode returned by Model::init is not the one it sent", other.name(), b, want),
                            cfg.to_json(),
                        ),
                        Some(_) => a.count("cached_address_mode_checked", 1),
                        None => a.count("cached_address_mode_not_observable", 1),
                    }
                    a.count("post_init_states_checked", 1);
                    a.count("init_commands_decoded", s.init_log.len() as u64);
                    if idx % 3001 == 5 {
                        a.sample(cfg.to_json().with("madctl", s.panel.madctl).with("colmod", s.panel.colmod).with("init_us", s.t_init_return / 1000));
                    }
                }
            }
        });
        total.merge(acc);
    }
    // (b) Model::init called directly with recorders of all three kinds
    if args.want_stage("direct") {
        let kinds = [Kind::Serial, Kind::Par8, Kind::Par16];
        let all = crate::rig::builtin();
        let n = all.len() as u64 * 3 * 128;
        let acc = par_cases(n, args.threads, args.case, |idx, a| {
            let m = all[(idx / (3 * 128)) as usize];
            let kind = kinds[((idx / 128) % 3) as usize];
            let (bgr, ori, invert, refresh) = opt_grid(idx);
            let mut cfg = DispCfg::full(m, Tr::L1S);
            cfg.bgr = bgr;
            cfg.ori = ori;
            cfg.invert = invert;
            cfg.refresh = refresh;
            let cj = || cfg.to_json().with("kind", format!("{:?}", kind)).with("via", "Model::init");
            let tl = Tl::new(if kind == Kind::Par16 { 16 } else { 8 });
            let r = rig::model_init_direct(m, kind, &cfg.options(), &tl);
            a.case(&format!("direct/{:?}/{:?}/{}", m, kind, idx % 128), true);
            let supported = m.supports(kind);
            let want = spec::madctl(bgr, ori, refresh & 1 != 0, refresh & 2 != 0);
            match r {
                Err(c) => a.violate("direct", idx, format!("panic/{}", m.name()), format!("{:?}", c), cj()),
                Ok(Err(InitResult::Unsupported)) => {
                    if supported {
                        a.violate("direct", idx, format!("supported-pairing-refused/{}/{:?}", m.name(), kind), "UnsupportedInterface".to_string(), cj());
                    } else if tl.0.borrow().l1_calls != 0 {
                        a.violate("direct", idx, format!("refused-after-commands/{}", m.name()), format!("{} interface calls, {} delays before refusing", tl.0.borrow().l1_calls, tl.0.borrow().delay_calls), cj());
                    } else {
                        a.count("refusals_checked", 1);
                    }
                }
                Ok(Err(e)) => a.violate("direct", idx, format!("unexpected-error/{}", m.name()), format!("{:?}", e), cj()),
                Ok(Ok(ret)) => {
                    if !supported {
                        a.violate("direct", idx, format!("unsupported-pairing-accepted/{}/{:?}", m.name(), kind), "accepted".to_string(), cj());
                        return;
                    }
                    if ret != want {
                        a.violate("direct", idx, format!("returned-address-mode/{}", m.name()), format!("Model::init returned {:#04x}, options encode to {:#04x}", ret, want), cj());
                    }
                    // decode what was sent
                    let (fw, fh) = m.fb();
                    let mut p = crate::panel::Panel::new(fw as u32, fh as u32, if kind == Kind::Par16 { 16 } else { 8 }, (0, 0, fw as u32, fh as u32));
                    for ev in tl.take_bus() {
                        p.feed(ev);
                    }
                    p.quiesce();
                    if p.madctl != want {
                        a.violate("direct", idx, format!("address-mode/{}", m.name()), format!("sent {:#04x}, want {:#04x}", p.madctl, want), cj());
                    }
                    if p.colmod != spec::colmod(m.bits()) {
                        a.violate("direct", idx, format!("pixel-format/{}", m.name()), format!("sent {:#04x}", p.colmod), cj());
                    }
                    if p.sleeping || !p.display_on || p.inverted != invert || p.pixels != 0 {
                        a.violate("direct", idx, format!("state/{}", m.name()), format!("sleeping {} on {} inverted {} pixels {}", p.sleeping, p.display_on, p.inverted, p.pixels), cj());
                    }
                    a.count("direct_inits_checked", 1);
                }
            }
        });
        total.merge(acc);
    }
    total.notes.insert(
        "exhaustive".into(),
        J::Str("14 models x all interface kinds x 2 colour orders x 8 orientations x 2 inversions x 4 refresh orders (x full/offset window x reset pin or not through Builder)".into()),
    );
    total.notes.insert("rule".into(), J::Str("case = one initialisation (model, transport or kind, option set); distinct = canonical description; all non-trivial".into()));
    total
}

thread_local! {
    /// timeline the zero-sized reset pin below reports to (set for the duration of one init)
    static ZST_TL: std::cell::RefCell<Option<Tl>> = const { std::cell::RefCell::new(None) };
}
/// A reset pin type without any data, like the type-state pins of most HALs
/// (`PA3<Output<PushPull>>` is zero-sized): the driver must treat it as the real pin it is.
struct ZstResetPin;
impl embedded_hal::digital::ErrorType for ZstResetPin {
    type Error = crate::hal::Fault;
}
impl embedded_hal::digital::OutputPin for ZstResetPin {
    fn set_low(&mut self) -> Result<(), Self::Error> {
        ZST_TL.with(|t| {
            let tl = t.borrow().clone().expect("timeline set");
            let mut p = std::mem::ManuallyDrop::new(tl.pin(crate::hal::Src::Rst));
            embedded_hal::digital::OutputPin::set_low(&mut *p)
        })
    }
    fn set_high(&mut self) -> Result<(), Self::Error> {
        ZST_TL.with(|t| {
            let tl = t.borrow().clone().expect("timeline set");
            let mut p = std::mem::ManuallyDrop::new(tl.pin(crate::hal::Src::Rst));
            embedded_hal::digital::OutputPin::set_high(&mut *p)
        })
    }
}

/// init of a few models with the zero-sized reset pin, judged by the same reset automaton
fn c17_zero_sized_pin(a: &mut Acc) {
    use crate::hal::{KP8, KSerial, L1};
    use mipidsi::models;
    fn one<M: mipidsi::models::Model, DI: mipidsi::interface::Interface>(a: &mut Acc, name: &str, model: M, tl: &Tl, di: DI, fb: (u32, u32))
    where
        M::ColorFormat: mipidsi::interface::InterfacePixelFormat<DI::Word>,
    {
        ZST_TL.with(|t| *t.borrow_mut() = Some(tl.clone()));
        tl.begin_call(200_000, None);
        let mut delay = tl.delay();
        let r = crate::rig::guarded(|| mipidsi::Builder::new(model, di).reset_pin(ZstResetPin).init(&mut delay).map(|_| ()).map_err(|_| ()));
        tl.end_call();
        ZST_TL.with(|t| *t.borrow_mut() = None);
        let mut panel = crate::panel::Panel::new(fb.0, fb.1, 8, (0, 0, fb.0, fb.1));
        for ev in tl.take_bus() {
            panel.feed(ev);
        }
        panel.quiesce();
        let log = panel.take_log();
        a.case(&format!("zero-sized-reset-pin/{}", name), true);
        a.count("inits_with_a_zero_sized_reset_pin_type", 1);
        let case = J::obj().with("model", name).with("reset_pin", "a zero-sized pin type");
        match r {
            Ok(Ok(())) => {
                if let Err((sig, detail)) = reset_monitor(&log, true) {
                    a.violate("zero-sized-pin", 0, format!("{}/reset-pin[zero-sized type]", sig), detail, case);
                }
            }
            other => a.violate("zero-sized-pin", 0, "init-failed[zero-sized reset pin]", format!("{:?}", other.map(|_| ())), case),
        }
    }
    let tl = Tl::new(8);
    one(a, "ST7789", models::ST7789, &tl, L1::<u8, KSerial>::new(&tl), (240, 320));
    let tl = Tl::new(8);
    one(a, "ILI9341Rgb565", models::ILI9341Rgb565, &tl, L1::<u8, KP8>::new(&tl), (240, 320));
    let tl = Tl::new(8);
    one(a, "GC9A01", models::GC9A01, &tl, L1::<u8, KSerial>::new(&tl), (240, 240));
    let tl = Tl::new(8);
    one(a, "ILI9488Rgb666", models::ILI9488Rgb666, &tl, L1::<u8, KP8>::new(&tl), (320, 480));
}

pub fn c17(args: &Args) -> Acc {
    let mut total = Acc::new();
    if args.case.is_none() || args.stage.as_deref() == Some("zero-sized-pin") {
        let mut a = Acc::new();
        c17_zero_sized_pin(&mut a);
        total.merge(a);
    }
    let mut combos: Vec<(ModelId, Tr)> = Vec::new();
    for m in crate::rig::builtin().iter().chain(EXTERNAL.iter()) {
        for t in ALL_TR {
            if t.type_checks(m.bits()) && (!m.is_builtin() || m.supports(t.kind())) {
                combos.push((*m, t));
            }
        }
    }
    let per = if args.quick() { 2 * gen::MODULES.len() as u64 + 16 } else { 256 };
    let n = combos.len() as u64 * per;
    let acc = par_cases(n, args.threads, args.case, |idx, a| {
        let (m, t) = combos[(idx / per) as usize];
        let mut rng = Rng::for_case(args.seed, "C17", &args.tier, idx);
        let mut cfg = DispCfg::full(m, t);
        let (bgr, ori, invert, refresh) = opt_grid(rng.next());
        cfg.bgr = bgr;
        cfg.ori = ori;
        cfg.invert = invert;
        cfg.refresh = refresh;
        cfg.rst = idx % 2 == 0;
        cfg.order = if rng.bool() { 0 } else { rng.below(10_080) as u16 };
        let (fw, fh) = m.fb();
        let modules: Vec<&(u16, u16, u16, u16)> = gen::MODULES.iter().filter(|g| g.0 as u32 + g.2 as u32 <= fw as u32 && g.1 as u32 + g.3 as u32 <= fh as u32).collect();
        let k = (idx % per) as usize / 2;
        if k < modules.len() {
            // the geometries of real modules built on these controllers, systematically
            let g = modules[k];
            cfg.w = g.0;
            cfg.h = g.1;
            cfg.ox = g.2;
            cfg.oy = g.3;
            a.count("module_geometries_initialised", 1);
        } else if rng.bool() {
            let (w, h, ox, oy) = gen::gen_window(&mut rng, fw, fh, u64::MAX);
            cfg.w = w;
            cfg.h = h;
            cfg.ox = ox;
            cfg.oy = oy;
        }
        a.seen("model_transport_rst", format!("{}/{}/{}", m.name(), t.name(), cfg.rst));
        a.case(&format!("{:?}", cfg), true);
        // with a reset pin, also when some operation of init fails: still no software reset on the
        // bus, nothing on the bus at all when the pin itself failed, and once the pulse is over
        // the pin stays high (a failed init must not park the controller in reset)
        if cfg.rst && idx % 4 == 2 {
            for k in [0u64, 1, 2, 3, 4, 6, 9, 14, 22, 35, 57, 92] {
                for eff in [crate::hal::Effect::NoEffect, crate::hal::Effect::TookEffect] {
                    let opened = Session::open_with(&cfg, Some(k), eff, false);
                    if let Opened::Ready(s) = &opened {
                        // init carried on after the failure (reporting it is C12's business): it
                        // must still not have replaced the hardware reset by a software reset
                        if s.tl.0.borrow().faulted.is_some() && s.init_log.iter().any(|e| matches!(e, PEv::Cmd { op: 0x01, page: 0, .. })) {
                            a.violate("main", idx, "failed-init/soft-reset-with-reset-pin", "a software reset was sent although a reset pin is configured".to_string(), cfg.to_json().with("fail_op", k).with("effect", format!("{:?}", eff)));
                            return;
                        }
                    }
                    if let Opened::Failed { tl, panel, .. } = opened {
                        let t = tl.0.borrow();
                        let Some(f) = t.faulted else { continue };
                        a.count("failed_inits_with_reset_pin_checked", 1);
                        let cj = || cfg.to_json().with("fail_op", k).with("effect", format!("{:?}", eff)).with("failed", format!("{:?}", f.src));
                        if panel.op_hist[0x01] > 0 {
                            a.violate("main", idx, "failed-init/soft-reset-with-reset-pin", "a software reset was sent although a reset pin is configured".to_string(), cj());
                            return;
                        }
                        if f.src == crate::hal::Src::Rst {
                            if panel.cmds > 0 {
                                a.violate("main", idx, "failed-init/bus-traffic-after-reset-pin-failure", format!("{} commands on the bus although the reset pin failed", panel.cmds), cj());
                                return;
                            }
                        } else if t.rst != Some(true) {
                            a.violate("main", idx, "failed-init/reset-pin-not-left-high", format!("reset pin level {:?} when the failed init returned", t.rst), cj());
                            return;
                        }
                    }
                }
            }
        }
        match Session::open(&cfg) {
            Opened::Failed { init, .. } => a.violate("main", idx, "init-failed", format!("{:?}", init), cfg.to_json()),
            Opened::Ready(s) => {
                a.count("timeline_events_checked", s.init_log.len() as u64);
                if let Err((sig, detail)) = reset_monitor(&s.init_log, cfg.rst) {
                    a.violate("main", idx, format!("{}/{}", sig, if cfg.rst { "reset-pin" } else { "no-reset-pin" }), detail, cfg.to_json());
                }
                // a strobe with undriven data pins or an undriven D/C line puts something undefined
                // on the bus: whatever came "first" was not the software reset
                for f in &s.init_findings {
                    if let Finding::Panel(crate::panel::Anomaly::Wire(w)) = f {
                        a.violate("main", idx, format!("undefined-bus-during-init/{}", f.kind()), format!("{:?}", w), cfg.to_json());
                    }
                }
                if cfg.rst && s.tl.0.borrow().rst != Some(true) {
                    a.violate("main", idx, "reset-pin-not-high-at-return", format!("level {:?}", s.tl.0.borrow().rst), cfg.to_json());
                }
                // "leaves it high": the display owns the pin from now on; a pin handle that was
                // dropped no longer drives the line (HAL pins return to high impedance on drop)
                if cfg.rst && s.tl.0.borrow().rst_pins_dropped != 0 {
                    a.violate("main", idx, "reset-pin-handle-dropped-during-init", "the reset pin object was dropped while the display is alive".to_string(), cfg.to_json());
                }
                if idx % 997 == 1 {
                    let head: Vec<String> = s.init_log.iter().take(6).map(|e| format!("{:?}", e)).collect();
                    a.sample(cfg.to_json().with("timeline_head", head));
                }
                // the same on an interface that has been used before: draw something (the lines are
                // now wherever the last call left them), release, initialise again
                use ModelId::*;
                let wired = [GC9107, GC9A01, ILI9341Rgb565, ILI9341Rgb666, ILI9342CRgb565, ILI9342CRgb666, ILI9486Rgb565, ILI9486Rgb666, ILI9488Rgb565, ILI9488Rgb666, RM67162, ST7735s, ST7789, ST7796, Ext16x16, Ext64x48, Ext256x256, Ext240x320c666, ExtQuirk];
                if idx % 3 != 0 && wired.contains(&cfg.model) {
                    let mut s = s;
                    let _ = s.step(&Op::SetPixel { x: 0, y: 0, c: 0xFFFF });
                    if idx % 2 == 0 {
                        let _ = s.step(&Op::FillSolid { rect: crate::ops::Rect { x: 0, y: 0, w: 1, h: 1 }, c: 0 });
                    }
                    let mut cfg2 = cfg.clone();
                    cfg2.rst = (idx / 2) % 2 == 0;
                    cfg2.ori = Ori(rng.below(8) as u8);
                    match s.rebuild(&cfg2) {
                        Opened::Failed { init, .. } => a.violate("main", idx, "after-release/init-failed", format!("{:?}", init), cfg2.to_json()),
                        Opened::Ready(s2) => {
                            a.count("re_initialisations_checked", 1);
                            if s2.tl.0.borrow().released_rst != Some(cfg.rst) {
                                a.violate("main", idx, "release/reset-pin-not-returned", format!("release() returned a reset pin: {:?}; one was configured: {}", s2.tl.0.borrow().released_rst, cfg.rst), cfg.to_json());
                            }
                            if let Err((sig, detail)) = reset_monitor(&s2.init_log, cfg2.rst) {
                                a.violate("main", idx, format!("after-release/{}/{}", sig, if cfg2.rst { "reset-pin" } else { "no-reset-pin" }), format!("second init on a released interface: {}", detail), cfg2.to_json().with("first", cfg.to_json()));
                            }
                            for f in &s2.init_findings {
                                a.violate("main", idx, format!("after-release/init-{}", f.kind()), f.describe(), cfg2.to_json().with("first", cfg.to_json()));
                            }
                        }
                    }
                }
            }
        }
    });
    total.merge(acc);
    total.notes.insert("rule".into(), J::Str("case = one Builder::init (model, transport, reset pin or not, option set); distinct = canonical description; all non-trivial".into()));
    total
}

// ------------------------------------------------------------------ C13

pub fn c13(args: &Args) -> Acc {
    let mut total = Acc::new();
    let n = args.n(60_000, 1_500_000);
    let acc = par_cases(n, args.threads, args.case, |idx, a| {
        let mut rng = Rng::for_case(args.seed, "C13", &args.tier, idx);
        let mut cfg = gen::gen_cfg(&mut rng, &CfgOpts { external: idx % 4 == 0, l1: true, l2: true, max_l2_area: 64 });
        if idx % 4 != 0 {
            let all = crate::rig::builtin();
            cfg.model = all[(idx % all.len() as u64) as usize];
            if !cfg.tr.type_checks(cfg.model.bits()) || !cfg.model.supports(cfg.tr.kind()) {
                cfg.tr = Tr::L1P8;
            }
            let (fw, fh) = cfg.model.fb();
            let (w, h, ox, oy) = gen::gen_window(&mut rng, fw, fh, 64);
            cfg.w = w;
            cfg.h = h;
            cfg.ox = ox;
            cfg.oy = oy;
            cfg.spi_buf = gen::spi_buf_len(&mut rng, cfg.model.bits());
        }
        let len = rng.range(1, 60);
        let mut hist: Vec<(Op, Option<u64>)> = Vec::new();
        // now and then: several hundred consecutive sleeps (or wakes), cheap at the Interface level
        if !cfg.tr.is_l2() && rng.chance(1, 40) {
            let op = if rng.bool() { Op::Sleep } else { Op::Wake };
            for _ in 0..rng.range(250, 530) {
                hist.push((op.clone(), None));
            }
        }
        for _ in 0..len {
            let op = match rng.below(10) {
                0..=2 => Op::Sleep,
                3..=5 => Op::Wake,
                6 => Op::SetPixel { x: 0, y: 0, c: rng.next() as u32 & 0xFFFF },
                7 => Op::SetOrientation(cfg.ori), // keep geometry: orientation changes are C10's
                8 => Op::ScrollOffset(rng.next() as u16),
                _ => Op::Tearing(rng.below(3) as u8),
            };
            // sometimes fail one of the first low-level operations of a sleep / wake, and now and
            // then of any other call (which must not disturb the sleep bookkeeping either)
            let fail = if matches!(op, Op::Sleep | Op::Wake) {
                if rng.chance(1, 6) { Some(rng.below(4)) } else { None }
            } else if rng.chance(1, 8) {
                Some(rng.below(14))
            } else {
                None
            };
            hist.push((op, fail));
        }
        let prog: Vec<Op> = hist.iter().map(|h| h.0.clone()).collect();
        let cj = || case_json(&cfg, &prog).with("faults", hist.iter().map(|h| J::from(h.1)).collect::<Vec<J>>());
        a.seen("models", cfg.model.name());
        let mut s = match Session::open(&cfg) {
            Opened::Ready(s) => s,
            Opened::Failed { init, .. } => {
                a.violate("main", idx, "init", format!("{:?}", init), cj());
                return;
            }
        };
        // last sleep-in/out command time so far: from init
        let mut last_cmd_t: Option<u64> = s.init_log.iter().rev().find_map(|e| match e {
            PEv::Cmd { op: 0x10 | 0x11, t, page: 0, .. } => Some(*t),
            _ => None,
        });
        if s.rig.is_sleeping() {
            a.violate("main", idx, "is_sleeping-after-init", "is_sleeping() is true right after init".to_string(), cj());
            return;
        }
        let mut clean = true; // no failed sleep/wake so far: driver flag must equal controller state
        let mut nontrivial = false;
        for (i, (op, fail)) in hist.iter().enumerate() {
            let before = s.rig.is_sleeping();
            let rep = s.step_with(op, *fail);
            let faulted = !matches!(rep.result, CallResult::Ok);
            if faulted && fail.is_none() {
                a.violate("main", idx, format!("{}/unexpected-failure", op.name()), format!("{:?}", rep.result), cj());
                return;
            }
            if matches!(rep.result, CallResult::Panic { .. } | CallResult::Budget { .. }) {
                a.violate("main", idx, format!("{}/panic", op.name()), format!("{:?}", rep.result), cj());
                return;
            }
            // spacing (fault-free calls only: a call aborted by a bus fault may have put the
            // command on the wire without the delay; the property speaks about calls that return)
            if faulted {
                last_cmd_t = None;
            } else {
                for e in &rep.log {
                    if let PEv::Cmd { op: c @ (0x10 | 0x11), t, page: 0, .. } = e {
                        a.count("sleep_commands_timed", 1);
                        nontrivial = true;
                        if let Some(prev) = last_cmd_t {
                            if *t < prev + 120 * MS {
                                a.violate("main", idx, "spacing/commands-closer-than-120ms", format!("step {}: command {:#04x} only {} us after the previous sleep-in/out", i, c, (*t - prev) / 1000), cj());
                                return;
                            }
                        }
                        if rep.t_return < *t + 120 * MS {
                            a.violate("main", idx, format!("spacing/{}-returned-early", op.name()), format!("step {}: returned {} us after command {:#04x}", i, (rep.t_return - *t) / 1000, c), cj());
                            return;
                        }
                        last_cmd_t = Some(*t);
                    }
                }
            }
            if faulted {
                // a failed sleep / wake may or may not have reached the controller; a failed call of
                // any other kind cannot have changed its sleep state
                if matches!(op, Op::Sleep | Op::Wake) {
                    clean = false;
                }
                // flag must be unchanged by a failed call
                if s.rig.is_sleeping() != before {
                    a.violate("main", idx, format!("{}/flag-changed-by-failed-call", op.name()), format!("step {}: is_sleeping {} -> {}", i, before, s.rig.is_sleeping()), cj());
                    return;
                }
                a.count("failed_sleep_wake_calls", 1);
                continue;
            }
            // model of the flag: last successful of {init, sleep, wake}
            for f in &rep.findings {
                if let Finding::Api(m) = f {
                    if m.starts_with("is_sleeping") {
                        a.violate("main", idx, format!("{}/is_sleeping-model", op.name()), format!("step {}: {}", i, m), cj());
                        return;
                    }
                }
            }
            if clean && s.rig.is_sleeping() != s.panel.sleeping {
                a.violate("main", idx, format!("{}/flag-vs-controller", op.name()), format!("step {}: is_sleeping() = {} but the controller, by the commands sent, is {}", i, s.rig.is_sleeping(), if s.panel.sleeping { "asleep" } else { "awake" }), cj());
                return;
            }
            a.count("history_steps_checked", 1);
        }
        a.case_hash(case_hash(&cfg, &prog) ^ hist.iter().fold(0u64, |h, x| h.rotate_left(5) ^ x.1.map(|v| v + 1).unwrap_or(0)), nontrivial);
        if idx < 3 {
            a.sample(cj());
        }
    });
    total.merge(acc);
    if args.case.is_none() {
        let m = total.sets.get("models").map(|s| s.len()).unwrap_or(0);
        if m < 14 {
            total.inconclusive(format!("only {} models exercised", m));
        }
    }
    total.notes.insert("rule".into(), J::Str("case = (configuration, history over sleep/wake/draw/orientation/scroll/tearing with optional injected faults on sleep/wake); distinct = hash; non-trivial = at least one sleep-in/out command reached the bus".into()));
    total
}

// ------------------------------------------------------------------ C10

pub fn c10(args: &Args) -> Acc {
    let mut total = Acc::new();
    let n = args.n(40_000, 1_000_000);
    let acc = par_cases(n, args.threads, args.case, |idx, a| {
        let mut rng = Rng::for_case(args.seed, "C10", &args.tier, idx);
        let mut cfg = gen::gen_cfg(&mut rng, &CfgOpts { external: true, l1: true, l2: true, max_l2_area: 24 * 24 });
        // (initial, final) pairs: all 64 covered systematically, longer sequences randomly
        cfg.ori = Ori((idx % 8) as u8);
        let fin = Ori(((idx / 8) % 8) as u8);
        let mut seq: Vec<Ori> = Vec::new();
        // now and then several hundred orientation changes in a row (nothing drawn in between)
        let run = if !cfg.tr.is_l2() && rng.chance(1, 30) { *rng.pick(&[254usize, 255, 256, 511, 512, 1023]) } else { rng.range(0, 5) as usize };
        for _ in 0..run {
            seq.push(Ori(rng.below(8) as u8));
        }
        seq.push(fin);
        let hostile = rng.bool();
        let mut twin_cfg = cfg.clone();
        twin_cfg.ori = fin;
        let po = ProgOpts {
            mode: if hostile { Mode::Hostile } else { Mode::InBounds },
            max_calls: 8,
            max_px: if cfg.tr.is_l2() { 600 } else { 4096 },
            allow_clear: true,
            allow_orient: false,
            allow_misc: false,
            allow_test_image: false,
            allow_set_pixels: !hostile,
        };
        let mut po = po;
        if (cfg.w as u64 * cfg.h as u64) > po.max_px {
            po.allow_clear = false;
        }
        let draw = gen::gen_program(&mut rng, &twin_cfg, &po);
        let mut prog: Vec<Op> = Vec::new();
        // every other case draws in the initial orientation first (a driver may remember
        // things about its last drawing call; the orientation change must invalidate them)
        if rng.bool() {
            let mut po0 = ProgOpts { max_calls: 3, ..crate::props::draw::clone_po(&po) };
            po0.mode = Mode::InBounds;
            po0.allow_set_pixels = true;
            prog.extend(gen::gen_program(&mut rng, &cfg, &po0));
            a.count("cases_drawing_before_the_orientation_changes", 1);
        }
        let asleep = rng.chance(1, 5);
        if asleep {
            // orientation changes while the panel sleeps must still arrive
            prog.push(Op::Sleep);
        }
        // now and then the raw interface is borrowed (nothing sent) right before a change
        let borrow_at = if rng.chance(1, 4) { Some(rng.below(seq.len() as u64) as usize) } else { None };
        for (k, o) in seq.iter().enumerate() {
            if borrow_at == Some(k) {
                prog.push(Op::DcsBorrow);
            }
            prog.push(Op::SetOrientation(*o));
        }
        if asleep {
            prog.push(Op::Wake);
        }
        let first_final_draw = prog.len();
        prog.extend(draw.iter().cloned());
        let cj = || case_json(&cfg, &prog).with("final_orientation", fin.name());
        a.seen("initial_final_pairs", format!("{}->{}", cfg.ori.name(), fin.name()));
        a.seen("transports", cfg.tr.name());
        let (mut sa, mut sb) = match (Session::open(&cfg), Session::open(&twin_cfg)) {
            (Opened::Ready(x), Opened::Ready(y)) => (x, y),
            _ => {
                a.violate("main", idx, "init", "init failed".to_string(), cj());
                return;
            }
        };
        sa.keep_touched = true;
        sb.keep_touched = true;
        let mut bad = false;
        for (i, op) in prog.iter().enumerate() {
            if i == first_final_draw {
                // the twin only sees the drawing calls made in the final orientation
                sa.touched.clear();
            }
            let ra = sa.step(op);
            for f in &ra.findings {
                // everything after a set_orientation is C10's business; out-of-bounds
                // draw_iter handling itself belongs to C02
                bad = true;
                a.violate("main", idx, format!("{}/{}", op.name(), f.kind()), format!("step {}: {}", i, f.describe()), cj());
            }
            if bad || ra.result != CallResult::Ok {
                return;
            }
            if let Op::SetOrientation(o) = op {
                let want = sa.want_madctl(*o);
                if sa.panel.madctl != want {
                    a.violate("main", idx, "set_orientation/address-mode", format!("controller holds {:#04x}; colour order / refresh order preserved and orientation {} encode to {:#04x}", sa.panel.madctl, o.name(), want), cj());
                    return;
                }
                a.count("orientation_changes_checked", 1);
            }
        }
        // twin: built with the final orientation, same drawing program
        for op in &draw {
            let rb = sb.step(op);
            if rb.result != CallResult::Ok || !rb.findings.is_empty() {
                // the twin itself misbehaves: not an orientation-change problem
                a.count("twin_had_findings", 1);
                a.case_hash(case_hash(&cfg, &prog), false);
                return;
            }
        }
        if sa.rig.size() != sb.rig.size() || sa.rig.bbox() != sb.rig.bbox() || sa.rig.orientation() != sb.rig.orientation() {
            a.violate("main", idx, "twin/api", format!("after set_orientation: size {:?} bbox {:?} orientation {}; display built with it: size {:?} bbox {:?} orientation {}", sa.rig.size(), sa.rig.bbox(), sa.rig.orientation().name(), sb.rig.size(), sb.rig.bbox(), sb.rig.orientation().name()), cj());
            return;
        }
        if sa.panel.madctl != sb.panel.madctl {
            a.violate("main", idx, "twin/address-mode", format!("{:#04x} vs {:#04x}", sa.panel.madctl, sb.panel.madctl), cj());
            return;
        }
        let mut cells = std::mem::take(&mut sa.touched);
        cells.extend(std::mem::take(&mut sb.touched));
        for (x, y) in &cells {
            if sa.panel.mem.get(*x, *y) != sb.panel.mem.get(*x, *y) {
                a.violate("main", idx, "twin/memory", format!("cell ({},{}): {:?} after set_orientation vs {:?} on a display built with that orientation", x, y, sa.panel.mem.get(*x, *y), sb.panel.mem.get(*x, *y)), cj());
                return;
            }
        }
        a.count("twin_cells_compared", cells.len() as u64);
        a.case_hash(case_hash(&cfg, &prog), sb.reffb.stored > 0);
        if idx < 3 {
            a.sample(cj());
        }
    });
    total.merge(acc);
    if args.case.is_none() {
        let p = total.sets.get("initial_final_pairs").map(|s| s.len()).unwrap_or(0);
        if p < 64 {
            total.inconclusive(format!("only {} of 64 (initial, final) orientation pairs exercised", p));
        }
    }
    total.notes.insert("rule".into(), J::Str("case = (configuration, orientation sequence, drawing program) run on the display and on a twin built with the final orientation; distinct = hash; non-trivial = the program stored at least one pixel".into()));
    total
}

pub fn unused(_: Effect) {}
