//! C19: the test image diagnoses border, orientation and colour settings.

use embedded_graphics_core::pixelcolor::{Rgb565, Rgb666, Rgb888};
use embedded_graphics_core::prelude::*;
use embedded_graphics_core::primitives::Rectangle;
use mipidsi::TestImage;

use crate::ev::{par_cases, Acc};
use crate::json::J;
use crate::ops::Op;
use crate::rig::{guarded, CallResult, DispCfg, ModelId, Tr};
use crate::session::{Opened, Session};
use crate::spec::Ori;
use crate::Args;

#[derive(Clone, Copy, PartialEq, Eq, Debug)]
pub enum Cl {
    Unpainted,
    White,
    Black,
    Red,
    Green,
    Blue,
    Other,
}

fn classify<C: RgbColor>(c: C) -> Cl {
    let (r, g, b) = (c.r(), c.g(), c.b());
    let (mr, mg, mb) = (C::MAX_R, C::MAX_G, C::MAX_B);
    if (r, g, b) == (mr, mg, mb) {
        Cl::White
    } else if (r, g, b) == (0, 0, 0) {
        Cl::Black
    } else if (r, g, b) == (mr, 0, 0) {
        Cl::Red
    } else if (r, g, b) == (0, mg, 0) {
        Cl::Green
    } else if (r, g, b) == (0, 0, mb) {
        Cl::Blue
    } else {
        Cl::Other
    }
}

/// Clipping framebuffer target; counts offers outside its area (allowed).
struct Fb<C> {
    /// top-left corner of the bounding box (targets need not start at the origin: the
    /// embedded-graphics `translated()` / `cropped()` adapters produce such targets)
    ox: i32,
    oy: i32,
    w: u32,
    h: u32,
    px: Vec<Cl>,
    outside_offers: u64,
    _p: std::marker::PhantomData<C>,
}
impl<C> Fb<C> {
    fn new(w: u32, h: u32) -> Self {
        Self::at(0, 0, w, h)
    }
    fn at(ox: i32, oy: i32, w: u32, h: u32) -> Self {
        Fb { ox, oy, w, h, px: vec![Cl::Unpainted; w as usize * h as usize], outside_offers: 0, _p: std::marker::PhantomData }
    }
}
impl<C: RgbColor> Dimensions for Fb<C> {
    fn bounding_box(&self) -> Rectangle {
        Rectangle::new(Point::new(self.ox, self.oy), Size::new(self.w, self.h))
    }
}
impl<C: RgbColor> DrawTarget for Fb<C> {
    type Color = C;
    type Error = core::convert::Infallible;
    fn draw_iter<I: IntoIterator<Item = Pixel<C>>>(&mut self, pixels: I) -> Result<(), Self::Error> {
        for Pixel(p, c) in pixels {
            let (x, y) = (p.x as i64 - self.ox as i64, p.y as i64 - self.oy as i64);
            if x >= 0 && y >= 0 && x < self.w as i64 && y < self.h as i64 {
                self.px[y as usize * self.w as usize + x as usize] = classify(c);
            } else {
                self.outside_offers += 1;
            }
        }
        Ok(())
    }
    fn fill_solid(&mut self, area: &Rectangle, color: C) -> Result<(), Self::Error> {
        // clipped natively (speed on large targets); semantics = default
        let x0 = (area.top_left.x as i64 - self.ox as i64).max(0);
        let y0 = (area.top_left.y as i64 - self.oy as i64).max(0);
        let x1 = (area.top_left.x as i64 - self.ox as i64 + area.size.width as i64).min(self.w as i64);
        let y1 = (area.top_left.y as i64 - self.oy as i64 + area.size.height as i64).min(self.h as i64);
        let total = area.size.width as u64 * area.size.height as u64;
        let mut inside = 0u64;
        let cl = classify(color);
        for y in y0..y1 {
            for x in x0..x1 {
                self.px[y as usize * self.w as usize + x as usize] = cl;
                inside += 1;
            }
        }
        self.outside_offers += total - inside;
        Ok(())
    }
}

/// The formalisation of the property on a picture of size (w, h).
pub fn judge(w: usize, h: usize, at: &dyn Fn(usize, usize) -> Cl) -> Result<(), (String, String)> {
    if w < 32 || h < 32 {
        return Ok(());
    }
    let (mut rmax, mut gmin, mut gmax, mut bmin) = (None::<usize>, None::<usize>, None::<usize>, None::<usize>);
    for y in 0..h {
        for x in 0..w {
            let c = at(x, y);
            if c == Cl::Unpainted {
                return Err(("unpainted".into(), format!("pixel ({}, {}) was never painted", x, y)));
            }
            let ring0 = x == 0 || y == 0 || x == w - 1 || y == h - 1;
            let ring1 = !ring0 && (x == 1 || y == 1 || x == w - 2 || y == h - 2);
            if ring0 && c != Cl::White {
                return Err(("frame-not-white".into(), format!("outermost pixel ({}, {}) is {:?}", x, y, c)));
            }
            if ring1 && c == Cl::White {
                return Err(("frame-thicker-than-one".into(), format!("pixel ({}, {}) just inside the frame is white", x, y)));
            }
            match c {
                Cl::Red => rmax = Some(rmax.map_or(x, |m: usize| m.max(x))),
                Cl::Green => {
                    gmin = Some(gmin.map_or(x, |m: usize| m.min(x)));
                    gmax = Some(gmax.map_or(x, |m: usize| m.max(x)));
                }
                Cl::Blue => bmin = Some(bmin.map_or(x, |m: usize| m.min(x))),
                _ => {}
            }
        }
    }
    match (rmax, gmin, gmax, bmin) {
        (Some(r), Some(g0), Some(g1), Some(b)) => {
            if !(r < g0 && g0 <= g1 && g1 < b) {
                return Err(("bar-order".into(), format!("red reaches x={}, green spans {}..={}, blue starts at x={}", r, g0, g1, b)));
            }
        }
        _ => return Err(("bar-missing".into(), format!("pure red {:?} green {:?} blue {:?}", rmax, gmin, bmin))),
    }
    // differs from each of its rotated / mirrored versions of the same dimensions
    let same = |f: &dyn Fn(usize, usize) -> (usize, usize)| -> bool {
        for y in 0..h {
            for x in 0..w {
                let (sx, sy) = f(x, y);
                if at(x, y) != at(sx, sy) {
                    return false;
                }
            }
        }
        true
    };
    let mut syms: Vec<(&str, Box<dyn Fn(usize, usize) -> (usize, usize)>)> = vec![
        ("rot180", Box::new(move |x, y| (w - 1 - x, h - 1 - y))),
        ("mirror-lr", Box::new(move |x, y| (w - 1 - x, y))),
        ("mirror-tb", Box::new(move |x, y| (x, h - 1 - y))),
    ];
    if w == h {
        syms.push(("rot90", Box::new(move |x, y| (y, w - 1 - x))));
        syms.push(("rot270", Box::new(move |x, y| (w - 1 - y, x))));
        syms.push(("transpose", Box::new(move |x, y| (y, x))));
        syms.push(("anti-transpose", Box::new(move |x, y| (w - 1 - y, w - 1 - x))));
    }
    for (name, f) in &syms {
        if same(f.as_ref()) {
            return Err(("symmetric".into(), format!("the picture equals its {} image: an orientation error would be invisible", name)));
        }
    }
    Ok(())
}

fn one<C: RgbColor + Default>(w: u32, h: u32) -> Result<(Result<(), (String, String)>, u64), CallResult> {
    one_at::<C>(0, 0, w, h)
}

fn one_at<C: RgbColor + Default>(ox: i32, oy: i32, w: u32, h: u32) -> Result<(Result<(), (String, String)>, u64), CallResult> {
    let mut fb = Fb::<C>::at(ox, oy, w, h);
    guarded(|| {
        // both public constructors
        let img = if (w + h) % 2 == 0 { TestImage::<C>::new() } else { TestImage::<C>::default() };
        let _ = img.draw(&mut fb);
    })?;
    let r = judge(w as usize, h as usize, &|x, y| fb.px[y * w as usize + x]);
    Ok((r, fb.outside_offers))
}

/// A target far larger than any memory: records the rectangle fills, counts everything else.
struct Vast<C> {
    w: u32,
    h: u32,
    fills: Vec<(i64, i64, i64, i64, Cl)>,
    other_pixels: u64,
    calls: u64,
    _p: std::marker::PhantomData<C>,
}
impl<C: RgbColor> Dimensions for Vast<C> {
    fn bounding_box(&self) -> Rectangle {
        Rectangle::new(Point::zero(), Size::new(self.w, self.h))
    }
}
impl<C: RgbColor> DrawTarget for Vast<C> {
    type Color = C;
    type Error = core::convert::Infallible;
    fn draw_iter<I: IntoIterator<Item = Pixel<C>>>(&mut self, pixels: I) -> Result<(), Self::Error> {
        for Pixel(p, c) in pixels.into_iter().take(1 << 22) {
            self.fills.push((p.x as i64, p.y as i64, p.x as i64, p.y as i64, classify(c)));
            self.other_pixels += 1;
            if self.fills.len() > 1 << 16 {
                break;
            }
        }
        Ok(())
    }
    fn fill_contiguous<I: IntoIterator<Item = C>>(&mut self, area: &Rectangle, colors: I) -> Result<(), Self::Error> {
        // only the beginning of the stream is pulled (a target may ignore surplus colours): the
        // first row and the first two pixels of the second, kept at a few probe columns
        let w = area.size.width as u64;
        let (ax, ay) = (area.top_left.x as i64, area.top_left.y as i64);
        let want = if w <= 1 << 23 { w + 2 } else { 2 };
        let probes = [0, 1, w / 2, w.saturating_sub(1), w, w + 1];
        for (k, c) in colors.into_iter().take(want as usize).enumerate() {
            let k = k as u64;
            self.other_pixels += 1;
            if probes.contains(&k) && w > 0 {
                let (x, y) = (ax + (k % w) as i64, ay + (k / w) as i64);
                self.fills.push((x, y, x, y, classify(c)));
            }
        }
        Ok(())
    }
    fn fill_solid(&mut self, area: &Rectangle, color: C) -> Result<(), Self::Error> {
        // bounded: a drawable whose number of calls grows with the target's size would otherwise
        // eat all memory / never finish on these targets (the case is then inconclusive)
        self.calls += 1;
        if self.calls > 1 << 22 {
            std::panic::panic_any(crate::hal::BudgetExceeded { ops: self.calls });
        }
        if let Some(br) = area.bottom_right() {
            if self.fills.len() < 1 << 16 {
                self.fills.push((area.top_left.x as i64, area.top_left.y as i64, br.x as i64, br.y as i64, classify(color)));
            }
        }
        Ok(())
    }
}

/// Targets of 2^32 pixels and more: no panic, and the picture (evaluated at probe points from
/// the recorded fills, last one wins) has the white frame and red | green | blue.
fn one_vast<C: RgbColor>(w: u32, h: u32) -> Result<Result<(), (String, String)>, CallResult> {
    let mut t = Vast::<C> { w, h, fills: Vec::new(), other_pixels: 0, calls: 0, _p: std::marker::PhantomData };
    guarded(|| {
        let _ = TestImage::<C>::new().draw(&mut t);
    })?;
    let at = |x: i64, y: i64| t.fills.iter().rev().find(|f| f.0 <= x && x <= f.2 && f.1 <= y && y <= f.3).map(|f| f.4).unwrap_or(Cl::Unpainted);
    let (w, h) = (w as i64, h as i64);
    // what the probe can see of the frame: the top row and the start of the second one
    let frame: &[(i64, i64)] = if w <= 1 << 23 { &[(0, 0), (1, 0), (w / 2, 0), (w - 1, 0), (0, 1)] } else { &[(0, 0), (1, 0)] };
    for &(x, y) in frame {
        if at(x, y) != Cl::White {
            return Ok(Err(("frame".into(), format!("frame pixel ({},{}) is {:?}", x, y, at(x, y)))));
        }
    }
    if w <= 1 << 23 && matches!(at(1, 1), Cl::White | Cl::Unpainted) {
        return Ok(Err(("frame".into(), format!("pixel (1,1) just inside the frame is {:?}", at(1, 1)))));
    }
    for (x, y) in [(w / 2, h / 2), (w / 3, 2 * h / 3), (w - 7, h - 7)] {
        if at(x, y) == Cl::Unpainted {
            return Ok(Err(("unpainted".into(), format!("pixel ({},{}) was never painted", x, y))));
        }
    }
    let row = 3 * h / 4;
    // the middle of the left, centre and right sixth-pairs of the area inside the 5-pixel margin
    let inner = w - 10;
    let (xl, xm, xr) = (5 + inner / 6, w / 2, w - 6 - inner / 6);
    let (l, m, r) = (at(xl, row), at(xm, row), at(xr, row));
    if (l, m, r) != (Cl::Red, Cl::Green, Cl::Blue) {
        return Ok(Err(("colour-bars".into(), format!("at x = {}, {}, {} of row {}: {:?} {:?} {:?}", xl, xm, xr, row, l, m, r))));
    }
    Ok(Ok(()))
}

pub fn c19(args: &Args) -> Acc {
    let mut total = Acc::new();
    if args.want_stage("vast") {
        // (a rectangle wider or higher than i32::MAX is not a valid embedded-graphics rectangle)
        let sizes: [(u32, u32); 8] = [(65536, 65536), (1 << 20, 1 << 12), (32, 1 << 27), (100_000, 50_000), (i32::MAX as u32, 40), (40, i32::MAX as u32), (1 << 30, 1 << 30), (i32::MAX as u32, i32::MAX as u32)];
        let acc = par_cases(sizes.len() as u64 * 3, args.threads, args.case, |idx, a| {
            let (w, h) = sizes[(idx / 3) as usize];
            let ct = idx % 3;
            let r = match ct {
                0 => one_vast::<Rgb565>(w, h),
                1 => one_vast::<Rgb666>(w, h),
                _ => one_vast::<Rgb888>(w, h),
            };
            let name = ["Rgb565", "Rgb666", "Rgb888"][ct as usize];
            let case = || J::obj().with("width", w).with("height", h).with("colour_type", name);
            a.case(&format!("{}x{}/{}", w, h, name), true);
            a.count("targets_drawn", 1);
            a.count("targets_with_2^32_pixels_or_more", 1);
            match r {
                // more than 2^22 drawing calls for one picture: neither a panic nor a picture
                Err(CallResult::Budget { ops }) => a.inconclusive(format!("vast: the test image needed more than {} drawing calls on a {}x{} target; not judged", ops - 1, w, h)),
                Err(c) => a.violate("vast", idx, "panic", format!("{:?}", c), case()),
                Ok(Err((sig, d))) => a.violate("vast", idx, format!("vast/{}", sig), d, case()),
                Ok(Ok(())) => a.count("pictures_judged_at_probe_points", 1),
            }
        });
        total.merge(acc);
    }
    if args.want_stage("sizes") {
        let maxs: u64 = 97;
        let n = maxs * maxs * 3;
        let acc = par_cases(n, args.threads, args.case, |idx, a| {
            let ct = idx % 3;
            let w = ((idx / 3) % maxs) as u32;
            let h = (idx / 3 / maxs) as u32;
            // every third size also on a target whose bounding box does not start at the origin
            let (ox, oy) = if (w + 2 * h) % 3 == 0 { ([7, -5, 1000, -70000][(w % 4) as usize], [-3, 11, -2000, 40000][(h % 4) as usize]) } else { (0, 0) };
            let r = match ct {
                0 => one_at::<Rgb565>(ox, oy, w, h),
                1 => one_at::<Rgb666>(ox, oy, w, h),
                _ => one_at::<Rgb888>(ox, oy, w, h),
            };
            let name = ["Rgb565", "Rgb666", "Rgb888"][ct as usize];
            let case = || J::obj().with("width", w).with("height", h).with("colour_type", name).with("target_origin", vec![ox, oy]);
            a.case(&format!("{}x{}/{}", w, h, name), w >= 32 && h >= 32);
            a.count("targets_drawn", 1);
            if (ox, oy) != (0, 0) {
                a.count("targets_not_at_origin", 1);
            }
            match r {
                Err(c) => a.violate("sizes", idx, "panic", format!("{:?}", c), case()),
                Ok((Err((sig, d)), _)) => a.violate("sizes", idx, sig, d, case()),
                Ok((Ok(()), off)) => {
                    a.count("pixels_offered_outside_target", off);
                    if w >= 32 && h >= 32 {
                        a.count("pictures_judged", 1);
                    }
                }
            }
            if idx == 3 * (maxs * 40 + 50) {
                a.sample(case());
            }
        });
        total.merge(acc);
        total.notes.insert("exhaustive".into(), J::Str("all target sizes 0x0 .. 96x96 x {Rgb565, Rgb666, Rgb888}".into()));
    }
    if args.want_stage("large") {
        let mut sizes: Vec<(u32, u32)> = vec![(1000, 7), (7, 1000), (32, 32), (33, 32), (32, 1000), (1000, 32), (320, 240), (240, 320), (536, 240), (1024, 1024), (65535, 33), (33, 65535), (100, 3000),
            // beyond what a Display can be: other draw targets may be larger than 65535
            (65536, 33), (65600, 32), (40, 70000), (32, 65537), (131073, 32),
            // zero-pixel targets with one gigantic dimension
            (4294967295, 0), (0, 4294967295), (2147483648, 0), (0, 2147483649)];
        if !args.quick() {
            sizes.extend([(4096, 4096), (65535, 64), (2048, 4096), (97, 4099)]);
        }
        let n = sizes.len() as u64 * 3;
        let acc = par_cases(n, args.threads, args.case, |idx, a| {
            let (w, h) = sizes[(idx / 3) as usize];
            let ct = idx % 3;
            let r = match ct {
                0 => one::<Rgb565>(w, h),
                1 => one::<Rgb666>(w, h),
                _ => one::<Rgb888>(w, h),
            };
            let name = ["Rgb565", "Rgb666", "Rgb888"][ct as usize];
            let case = || J::obj().with("width", w).with("height", h).with("colour_type", name);
            a.case(&format!("{}x{}/{}", w, h, name), w >= 32 && h >= 32);
            a.count("targets_drawn", 1);
            match r {
                Err(c) => a.violate("large", idx, "panic", format!("{:?}", c), case()),
                Ok((Err((sig, d)), _)) => a.violate("large", idx, sig, d, case()),
                Ok((Ok(()), _)) => {
                    if w >= 32 && h >= 32 {
                        a.count("pictures_judged", 1);
                    }
                }
            }
        });
        total.merge(acc);
    }
    // through a real Display: every model, full size, all 8 orientations; the picture is
    // read back from controller memory through the inverse geometric mapping
    if args.want_stage("display") {
        let mut models: Vec<ModelId> = crate::rig::builtin();
        models.extend([ModelId::Ext64x48, ModelId::Ext256x256, ModelId::Ext240x320c666]);
        let n = models.len() as u64 * 8;
        let acc = par_cases(n, args.threads, args.case, |idx, a| {
            let m = models[(idx / 8) as usize];
            let tr = if m.is_builtin() && !m.supports(Tr::L1S.kind()) { Tr::L1P8 } else { Tr::L1S };
            let mut cfg = DispCfg::full(m, tr);
            cfg.ori = Ori((idx % 8) as u8);
            let case = || cfg.to_json().with("drawable", "TestImage");
            let Opened::Ready(mut s) = Session::open(&cfg) else {
                a.violate("display", idx, "init", "init failed".to_string(), case());
                return;
            };
            let rep = s.step(&Op::TestImage);
            a.case(&format!("display/{:?}/{}", m, cfg.ori.0), true);
            if let Some(f) = rep.findings.first() {
                a.violate("display", idx, format!("through-display/{}", f.kind()), f.describe(), case());
                return;
            }
            let (lw, lh) = s.reffb.lsize();
            let geo = s.reffb.geo;
            let bits = m.bits();
            let mask = (1u32 << bits) - 1;
            let at = |x: usize, y: usize| -> Cl {
                let (fx, fy) = geo.fwd(x as i64, y as i64);
                match s.panel.mem.get(fx as u32, fy as u32) {
                    None => Cl::Unpainted,
                    Some(raw) => {
                        let (r, g, b) = if bits == 16 { (raw >> 11, (raw >> 5) & 63, raw & 31) } else { (raw >> 12, (raw >> 6) & 63, raw & 63) };
                        let (mr, mg, mb) = if bits == 16 { (31, 63, 31) } else { (63, 63, 63) };
                        if raw == mask {
                            Cl::White
                        } else if raw == 0 {
                            Cl::Black
                        } else if (r, g, b) == (mr, 0, 0) {
                            Cl::Red
                        } else if (r, g, b) == (0, mg, 0) {
                            Cl::Green
                        } else if (r, g, b) == (0, 0, mb) {
                            Cl::Blue
                        } else {
                            Cl::Other
                        }
                    }
                }
            };
            a.count("pictures_read_back_from_controller_memory", 1);
            if let Err((sig, d)) = judge(lw as usize, lh as usize, &at) {
                a.violate("display", idx, format!("through-display/{}", sig), d, case());
            }
            if idx % 31 == 0 {
                a.sample(case());
            }
        });
        total.merge(acc);
    }
    total.notes.insert("rule".into(), J::Str("case = (target width, height, colour type) or (model, orientation) through a real Display; distinct by description; non-trivial = target at least 32x32".into()));
    total
}
