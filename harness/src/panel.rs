//! Executable model of a MIPI-DCS display controller: consumes decoded bus
//! events, keeps controller state and framebuffer memory, and logs what it saw
//! for the trace monitors.

use crate::hal::{BusEv, WireAnomaly};
use crate::mem::{Mem, R};

#[derive(Clone, Debug, PartialEq, Eq)]
pub enum Anomaly {
    Wire(WireAnomaly),
    /// known command finalized with a wrong number of parameter bytes
    BadParamCount { op: u8, got: usize, want: usize },
    /// pixel data while no decodable pixel format is configured
    Undecodable { colmod: u8, width: u8 },
    /// burst ended in the middle of a pixel
    PartialPixel { words: usize },
    /// host address outside the framebuffer under the current address mode
    AddrOutsideFb { col: u32, page: u32 },
    /// a framebuffer cell outside the configured panel window was written
    OutsideWindow { x: u32, y: u32 },
    /// the write pointer wrapped from the end of the window to its start
    PointerWrap,
    /// window with start > end
    StartGtEnd { op: u8, s: u16, e: u16 },
    /// data words that belong to no command
    OrphanData(usize),
}

impl Anomaly {
    pub fn kind(&self) -> &'static str {
        match self {
            Anomaly::Wire(WireAnomaly::UnknownDc) => "wire-unknown-dc",
            Anomaly::Wire(WireAnomaly::UndrivenData(_)) => "wire-undriven-data",
            Anomaly::Wire(WireAnomaly::MultiByteCmd(_)) => "wire-multibyte-cmd",
            Anomaly::Wire(WireAnomaly::SpiOtherOp(_)) => "wire-spi-other-op",
            Anomaly::Wire(WireAnomaly::CmdHighBits(_)) => "wire-cmd-high-bits",
            Anomaly::Wire(WireAnomaly::SizeHint { .. }) => "pixel-iterator-size-hint-contradicted",
            Anomaly::BadParamCount { .. } => "bad-param-count",
            Anomaly::Undecodable { .. } => "undecodable-pixel-format",
            Anomaly::PartialPixel { .. } => "partial-pixel",
            Anomaly::AddrOutsideFb { .. } => "addr-outside-framebuffer",
            Anomaly::OutsideWindow { .. } => "write-outside-window",
            Anomaly::PointerWrap => "pointer-wrap",
            Anomaly::StartGtEnd { .. } => "window-start-gt-end",
            Anomaly::OrphanData(_) => "orphan-data",
        }
    }
}

/// Per-call log for the trace monitors.
#[derive(Clone, Debug, PartialEq, Eq)]
pub enum PEv {
    Cmd { op: u8, params: Vec<u8>, t: u64, page: u8 },
    Burst { pixels: u64, area: u64, wraps: u64, win: (u16, u16, u16, u16) },
    Rst { level: bool, t: u64 },
}

pub struct Panel {
    pub fw: u32,
    pub fh: u32,
    /// bus word width in bits (8 for SPI / 8-bit parallel, 16)
    pub width: u8,
    pub mem: Mem,
    /// configured panel window (ox, oy, w, h) for the confinement monitor
    pub window: (u32, u32, u32, u32),
    // controller state
    pub page: u8,
    pub sleeping: bool,
    pub display_on: bool,
    pub inverted: bool,
    pub normal_mode: bool,
    pub madctl: u8,
    pub colmod: u8,
    pub caset: (u16, u16),
    pub raset: (u16, u16),
    pub scroll_def: Option<(u16, u16, u16)>,
    pub scroll_start: Option<u16>,
    pub tear: Option<Option<u8>>,
    pub soft_resets: u32,
    /// see abort_partial
    pub latch_on_abort: bool,
    // parser
    cur: Option<u8>,
    params: Vec<u8>,
    cur_t: u64,
    in_ramwr: bool,
    acc: [u16; 4],
    acc_n: usize,
    col: u32,
    pg: u32,
    burst_pixels: u64,
    burst_wraps: u64,
    undecodable_reported: bool,
    /// the pointer moved from the last cell of the window back to its first
    wrapped: bool,
    page_at_exec: u8,
    // time
    pub now: u64,
    // logs
    pub log: Vec<PEv>,
    pub anomalies: Vec<Anomaly>,
    pub anomaly_count: u64,
    // stats
    pub cmds: u64,
    pub pixels: u64,
    pub op_hist: [u32; 256],
    pub ramwr_count: u64,
}

const MAX_ANOMALIES_KEPT: usize = 32;

impl Panel {
    pub fn new(fw: u32, fh: u32, width: u8, window: (u32, u32, u32, u32)) -> Panel {
        Panel {
            fw,
            fh,
            width,
            mem: Mem::new(fw, fh),
            window,
            page: 0,
            sleeping: true,
            display_on: false,
            inverted: false,
            normal_mode: true,
            madctl: 0,
            colmod: 0,
            caset: (0, (fw - 1).min(0xFFFF) as u16),
            raset: (0, (fh - 1).min(0xFFFF) as u16),
            scroll_def: None,
            scroll_start: None,
            tear: None,
            soft_resets: 0,
            latch_on_abort: false,
            cur: None,
            params: Vec::new(),
            cur_t: 0,
            in_ramwr: false,
            acc: [0; 4],
            acc_n: 0,
            col: 0,
            pg: 0,
            burst_pixels: 0,
            burst_wraps: 0,
            undecodable_reported: false,
            wrapped: false,
            page_at_exec: 0,
            now: 0,
            log: Vec::new(),
            anomalies: Vec::new(),
            anomaly_count: 0,
            cmds: 0,
            pixels: 0,
            op_hist: [0; 256],
            ramwr_count: 0,
        }
    }

    fn anomaly(&mut self, a: Anomaly) {
        self.anomaly_count += 1;
        if self.anomalies.len() < MAX_ANOMALIES_KEPT {
            self.anomalies.push(a);
        }
    }

    pub fn mv(&self) -> bool {
        self.madctl & 0x20 != 0
    }
    pub fn mx(&self) -> bool {
        self.madctl & 0x40 != 0
    }
    pub fn my(&self) -> bool {
        self.madctl & 0x80 != 0
    }
    /// (columns, pages) addressable by the host under the current address mode
    pub fn host_limits(&self) -> (u32, u32) {
        if self.mv() {
            (self.fh, self.fw)
        } else {
            (self.fw, self.fh)
        }
    }

    /// host (col, page) -> framebuffer (X, Y)
    fn map(&self, col: u32, page: u32) -> Option<(u32, u32)> {
        let (lc, lp) = self.host_limits();
        if col >= lc || page >= lp {
            return None;
        }
        Some(if !self.mv() {
            (
                if self.mx() { self.fw - 1 - col } else { col },
                if self.my() { self.fh - 1 - page } else { page },
            )
        } else {
            (
                if self.mx() { self.fw - 1 - page } else { page },
                if self.my() { self.fh - 1 - col } else { col },
            )
        })
    }

    fn words_per_pixel(&self) -> Option<usize> {
        match (self.colmod & 0x07, self.width) {
            (0b101, 8) => Some(2),
            (0b101, 16) => Some(1),
            (0b110, 8) => Some(3),
            _ => None,
        }
    }

    fn decode(&self, w: &[u16]) -> u32 {
        match (self.colmod & 0x07, self.width) {
            (0b101, 8) => ((w[0] as u32 & 0xFF) << 8) | (w[1] as u32 & 0xFF),
            (0b101, 16) => w[0] as u32,
            _ => ((w[0] as u32 & 0xFF) >> 2) << 12 | ((w[1] as u32 & 0xFF) >> 2) << 6 | ((w[2] as u32 & 0xFF) >> 2),
        }
    }

    fn in_window(&self, x: u32, y: u32) -> bool {
        let (ox, oy, w, h) = self.window;
        x >= ox && y >= oy && x < ox + w && y < oy + h
    }

    fn advance(&mut self) {
        let (sc, ec) = (self.caset.0 as u32, self.caset.1 as u32);
        let (sp, ep) = (self.raset.0 as u32, self.raset.1 as u32);
        if self.col >= ec {
            self.col = sc;
            if self.pg >= ep {
                self.pg = sp;
                self.wrapped = true;
            } else {
                self.pg += 1;
            }
        } else {
            self.col += 1;
        }
    }

    /// A write after the pointer wrapped is the overrun (reaching the end of
    /// the window exactly is not).
    fn note_wrap(&mut self) {
        if self.wrapped {
            self.wrapped = false;
            self.burst_wraps += 1;
            self.anomaly(Anomaly::PointerWrap);
        }
    }

    fn store_pixel(&mut self, raw: u32) {
        self.note_wrap();
        self.pixels += 1;
        self.burst_pixels += 1;
        match self.map(self.col, self.pg) {
            None => {
                let (col, page) = (self.col, self.pg);
                self.anomaly(Anomaly::AddrOutsideFb { col, page });
            }
            Some((x, y)) => {
                self.mem.set(x, y, raw);
                if !self.in_window(x, y) {
                    self.anomaly(Anomaly::OutsideWindow { x, y });
                }
            }
        }
        self.advance();
    }

    fn window_area(&self) -> u64 {
        let cw = (self.caset.1 as i64 - self.caset.0 as i64 + 1).max(0) as u64;
        let ph = (self.raset.1 as i64 - self.raset.0 as i64 + 1).max(0) as u64;
        cw * ph
    }

    fn pixel_word(&mut self, w: u16) {
        match self.words_per_pixel() {
            None => {
                if !self.undecodable_reported {
                    self.undecodable_reported = true;
                    let (colmod, width) = (self.colmod, self.width);
                    self.anomaly(Anomaly::Undecodable { colmod, width });
                }
            }
            Some(n) => {
                self.acc[self.acc_n] = w;
                self.acc_n += 1;
                if self.acc_n == n {
                    let raw = self.decode(&self.acc[..n]);
                    self.acc_n = 0;
                    self.store_pixel(raw);
                }
            }
        }
    }

    /// `count` repetitions of one pixel: whole rows are applied as rectangles.
    fn pixel_run(&mut self, pix: [u16; 4], n: usize, mut count: u64) {
        let wpp = self.words_per_pixel();
        if wpp != Some(n) || self.acc_n != 0 {
            // not aligned to the pixel format: expand (bounded)
            if wpp.is_none() {
                self.pixel_word(pix[0]);
                return;
            }
            let total = count.saturating_mul(n as u64).min(1 << 24);
            for i in 0..total {
                self.pixel_word(pix[(i % n as u64) as usize]);
            }
            return;
        }
        let raw = self.decode(&pix[..n]);
        let (sc, ec) = (self.caset.0 as u32, self.caset.1 as u32);
        let (sp, ep) = (self.raset.0 as u32, self.raset.1 as u32);
        if ec < sc || ep < sp {
            // malformed window: per-pixel semantics, bounded
            for _ in 0..count.min(1 << 20) {
                self.store_pixel(raw);
            }
            return;
        }
        let row_len = (ec - sc + 1) as u64;
        let mut guard = 0;
        while count > 0 {
            guard += 1;
            if guard > 64 {
                // many window wraps: content is now "whole window = raw"
                break;
            }
            if self.col == sc && count >= row_len {
                self.note_wrap();
                let rows_left = (ep - self.pg + 1) as u64;
                let k = (count / row_len).min(rows_left);
                // rectangle of k full rows starting at page self.pg
                let a = self.map(sc, self.pg);
                let b = self.map(ec, self.pg + k as u32 - 1);
                match (a, b) {
                    (Some((ax, ay)), Some((bx, by))) => {
                        let r = R { x0: ax.min(bx), y0: ay.min(by), x1: ax.max(bx), y1: ay.max(by) };
                        self.mem.fill(r, raw);
                        let (ox, oy, w, h) = self.window;
                        if r.x0 < ox || r.y0 < oy || r.x1 >= ox + w || r.y1 >= oy + h {
                            self.anomaly(Anomaly::OutsideWindow { x: r.x1, y: r.y1 });
                        }
                    }
                    _ => {
                        let (col, page) = (ec, self.pg + k as u32 - 1);
                        self.anomaly(Anomaly::AddrOutsideFb { col, page });
                    }
                }
                self.pixels += k * row_len;
                self.burst_pixels += k * row_len;
                count -= k * row_len;
                if k == rows_left {
                    self.pg = sp;
                    self.wrapped = true;
                    if count > 0 {
                        // skip whole-window repetitions
                        let area = self.window_area();
                        if area > 0 && count > area {
                            count = area + count % area;
                        }
                    }
                } else {
                    self.pg += k as u32;
                }
            } else {
                let seg = ((ec - self.col + 1) as u64).min(count);
                for _ in 0..seg {
                    self.store_pixel(raw);
                }
                count -= seg;
            }
        }
    }

    fn finalize(&mut self) {
        if self.in_ramwr {
            if self.acc_n != 0 {
                let words = self.acc_n;
                self.anomaly(Anomaly::PartialPixel { words });
            }
            if self.burst_pixels > 0 || self.burst_wraps > 0 {
                let area = self.window_area();
                let win = (self.caset.0, self.caset.1, self.raset.0, self.raset.1);
                self.log.push(PEv::Burst { pixels: self.burst_pixels, area, wraps: self.burst_wraps, win });
            }
            self.in_ramwr = false;
            self.acc_n = 0;
            self.burst_pixels = 0;
            self.burst_wraps = 0;
            self.undecodable_reported = false;
            self.cur = None;
            return;
        }
        let Some(op) = self.cur.take() else { return };
        let params = std::mem::take(&mut self.params);
        self.exec(op, &params);
        self.log.push(PEv::Cmd { op, params, t: self.cur_t, page: self.page_at_exec });
    }

    fn want(&mut self, op: u8, params: &[u8], n: usize) -> bool {
        if params.len() != n {
            self.anomaly(Anomaly::BadParamCount { op, got: params.len(), want: n });
            false
        } else {
            true
        }
    }

    /// Register state after a software reset or a hardware reset pulse (frame memory keeps
    /// its content: what matters here is that nothing programmed before survives).
    fn reset_registers(&mut self) {
        self.sleeping = true;
        self.display_on = false;
        self.inverted = false;
        self.normal_mode = true;
        self.madctl = 0;
        self.colmod = 0;
        self.caset = (0, (self.fw - 1).min(0xFFFF) as u16);
        self.raset = (0, (self.fh - 1).min(0xFFFF) as u16);
        self.scroll_def = None;
        self.scroll_start = None;
        self.tear = None;
    }

    fn exec(&mut self, op: u8, p: &[u8]) {
        self.page_at_exec = self.page;
        if op == 0xFE && p.len() == 1 {
            self.page = p[0];
            return;
        }
        if self.page != 0 {
            return; // manufacturer command page: logged only
        }
        match op {
            0x01 => {
                if self.want(op, p, 0) {
                    self.soft_resets += 1;
                    self.reset_registers();
                }
            }
            0x10 => {
                if self.want(op, p, 0) {
                    self.sleeping = true;
                }
            }
            0x11 => {
                if self.want(op, p, 0) {
                    self.sleeping = false;
                }
            }
            0x13 => {
                if self.want(op, p, 0) {
                    self.normal_mode = true;
                }
            }
            0x12 => {
                if self.want(op, p, 0) {
                    self.normal_mode = false;
                }
            }
            0x20 => {
                if self.want(op, p, 0) {
                    self.inverted = false;
                }
            }
            0x21 => {
                if self.want(op, p, 0) {
                    self.inverted = true;
                }
            }
            0x28 => {
                if self.want(op, p, 0) {
                    self.display_on = false;
                }
            }
            0x29 => {
                if self.want(op, p, 0) {
                    self.display_on = true;
                }
            }
            0x2A => {
                if self.want(op, p, 4) {
                    let s = (p[0] as u16) << 8 | p[1] as u16;
                    let e = (p[2] as u16) << 8 | p[3] as u16;
                    if s > e {
                        self.anomaly(Anomaly::StartGtEnd { op, s, e });
                    }
                    self.caset = (s, e);
                }
            }
            0x2B => {
                if self.want(op, p, 4) {
                    let s = (p[0] as u16) << 8 | p[1] as u16;
                    let e = (p[2] as u16) << 8 | p[3] as u16;
                    if s > e {
                        self.anomaly(Anomaly::StartGtEnd { op, s, e });
                    }
                    self.raset = (s, e);
                }
            }
            0x33 => {
                if self.want(op, p, 6) {
                    let f = |i: usize| (p[i] as u16) << 8 | p[i + 1] as u16;
                    self.scroll_def = Some((f(0), f(2), f(4)));
                }
            }
            0x34 => {
                if self.want(op, p, 0) {
                    self.tear = Some(None);
                }
            }
            0x35 => {
                if self.want(op, p, 1) {
                    self.tear = Some(Some(p[0]));
                }
            }
            0x36 => {
                if self.want(op, p, 1) {
                    self.madctl = p[0];
                }
            }
            0x37 => {
                if self.want(op, p, 2) {
                    self.scroll_start = Some((p[0] as u16) << 8 | p[1] as u16);
                }
            }
            0x3A => {
                if self.want(op, p, 1) {
                    self.colmod = p[0];
                }
            }
            _ => {} // vendor command: logged only
        }
    }

    pub fn feed(&mut self, ev: BusEv) {
        match ev {
            BusEv::Cmd(op) => {
                self.finalize();
                self.cmds += 1;
                self.op_hist[op as usize] += 1;
                self.cur_t = self.now;
                if op == 0x2C && self.page == 0 {
                    self.ramwr_count += 1;
                    self.log.push(PEv::Cmd { op, params: Vec::new(), t: self.now, page: 0 });
                    self.in_ramwr = true;
                    self.cur = Some(op);
                    self.col = self.caset.0 as u32;
                    self.pg = self.raset.0 as u32;
                    self.acc_n = 0;
                    self.burst_pixels = 0;
                    self.burst_wraps = 0;
                    self.wrapped = false;
                } else {
                    self.cur = Some(op);
                    self.params.clear();
                }
            }
            BusEv::Data(words) => {
                if self.in_ramwr {
                    for w in words {
                        self.pixel_word(w);
                    }
                } else if self.cur.is_some() {
                    self.params.extend(words.iter().map(|w| *w as u8));
                } else {
                    self.anomaly(Anomaly::OrphanData(words.len()));
                }
            }
            BusEv::Run { pix, n, count } => {
                if self.in_ramwr {
                    self.pixel_run(pix, n as usize, count as u64);
                } else {
                    self.anomaly(Anomaly::OrphanData(count as usize));
                }
            }
            BusEv::Delay(ns) => self.now += ns,
            BusEv::Rst(level) => {
                if !level {
                    // RESX low: the controller forgets its registers (a transport or driver that
                    // remembers what it programmed earlier cannot see this pulse on the bus)
                    self.finalize();
                    self.page = 0;
                    self.in_ramwr = false;
                    self.reset_registers();
                }
                self.log.push(PEv::Rst { level, t: self.now });
            }
            BusEv::Wire(w) => self.anomaly(Anomaly::Wire(w)),
        }
    }

    /// Quiescent point: the driver call returned. Completes the pending
    /// command / burst so that its parameter count and pixel boundary are checked.
    pub fn quiesce(&mut self) {
        self.finalize();
    }

    /// After a call that was aborted by an injected fault: forget the
    /// half-sent command without judging it.
    pub fn abort_partial(&mut self) {
        // an address-mode command whose parameter byte did arrive is latched by the controller
        // even though the bus reported the transfer as failed (only where the caller asked for
        // this fidelity: the driver and the controller then disagree until the call is repeated)
        if self.latch_on_abort && self.cur == Some(0x36) && self.params.len() == 1 && self.page == 0 {
            self.madctl = self.params[0];
        }
        self.cur = None;
        self.params.clear();
        if self.in_ramwr && (self.burst_pixels > 0 || self.burst_wraps > 0) {
            let area = self.window_area();
            let win = (self.caset.0, self.caset.1, self.raset.0, self.raset.1);
            self.log.push(PEv::Burst { pixels: self.burst_pixels, area, wraps: self.burst_wraps, win });
        }
        self.in_ramwr = false;
        self.acc_n = 0;
        self.burst_pixels = 0;
        self.burst_wraps = 0;
    }

    pub fn take_log(&mut self) -> Vec<PEv> {
        std::mem::take(&mut self.log)
    }
    pub fn take_anomalies(&mut self) -> Vec<Anomaly> {
        self.anomaly_count = 0;
        std::mem::take(&mut self.anomalies)
    }
}
