//! Cell memory used by both the controller simulator (framebuffer cells) and
//! the logical reference framebuffer. Dense for ordinary sizes; sparse points
//! + ordered solid rectangles for huge (up to 65535x65535) ones.

use std::collections::HashMap;

#[derive(Clone, Copy, Debug, PartialEq, Eq)]
pub struct R {
    pub x0: u32,
    pub y0: u32,
    pub x1: u32, // inclusive
    pub y1: u32, // inclusive
}
impl R {
    pub fn area(&self) -> u64 {
        (self.x1 - self.x0 + 1) as u64 * (self.y1 - self.y0 + 1) as u64
    }
    pub fn contains(&self, x: u32, y: u32) -> bool {
        x >= self.x0 && x <= self.x1 && y >= self.y0 && y <= self.y1
    }
}

const DENSE_MAX_CELLS: u64 = 1 << 22;

enum Store {
    /// 0 = never written, else value+1
    Dense(Vec<u32>),
    Sparse {
        pts: HashMap<(u32, u32), (u32, u64)>,
        rects: Vec<(R, u32, u64)>,
        seq: u64,
    },
}

pub struct Mem {
    pub w: u32,
    pub h: u32,
    store: Store,
    pub dirty_pts: Vec<(u32, u32)>,
    pub dirty_rects: Vec<R>,
    pub writes: u64,
}

impl Mem {
    pub fn new(w: u32, h: u32) -> Mem {
        let store = if (w as u64) * (h as u64) <= DENSE_MAX_CELLS {
            Store::Dense(vec![0; (w as usize) * (h as usize)])
        } else {
            Store::Sparse { pts: HashMap::new(), rects: Vec::new(), seq: 0 }
        };
        Mem { w, h, store, dirty_pts: Vec::new(), dirty_rects: Vec::new(), writes: 0 }
    }
    pub fn is_dense(&self) -> bool {
        matches!(self.store, Store::Dense(_))
    }
    pub fn set(&mut self, x: u32, y: u32, v: u32) {
        debug_assert!(x < self.w && y < self.h);
        self.writes += 1;
        self.dirty_pts.push((x, y));
        match &mut self.store {
            Store::Dense(c) => c[(y as usize) * (self.w as usize) + x as usize] = v + 1,
            Store::Sparse { pts, seq, .. } => {
                *seq += 1;
                pts.insert((x, y), (v, *seq));
            }
        }
    }
    pub fn fill(&mut self, r: R, v: u32) {
        debug_assert!(r.x1 < self.w && r.y1 < self.h && r.x0 <= r.x1 && r.y0 <= r.y1);
        self.writes += r.area();
        self.dirty_rects.push(r);
        match &mut self.store {
            Store::Dense(c) => {
                let w = self.w as usize;
                for y in r.y0..=r.y1 {
                    let row = (y as usize) * w;
                    for cell in &mut c[row + r.x0 as usize..=row + r.x1 as usize] {
                        *cell = v + 1;
                    }
                }
            }
            Store::Sparse { rects, seq, .. } => {
                *seq += 1;
                rects.push((r, v, *seq));
            }
        }
    }
    pub fn get(&self, x: u32, y: u32) -> Option<u32> {
        if x >= self.w || y >= self.h {
            return None;
        }
        match &self.store {
            Store::Dense(c) => {
                let v = c[(y as usize) * (self.w as usize) + x as usize];
                if v == 0 {
                    None
                } else {
                    Some(v - 1)
                }
            }
            Store::Sparse { pts, rects, .. } => {
                let p = pts.get(&(x, y)).copied();
                let r = rects.iter().rev().find(|(r, _, _)| r.contains(x, y)).map(|(_, v, s)| (*v, *s));
                match (p, r) {
                    (None, None) => None,
                    (Some((v, _)), None) => Some(v),
                    (None, Some((v, _))) => Some(v),
                    (Some((pv, ps)), Some((rv, rs))) => Some(if ps > rs { pv } else { rv }),
                }
            }
        }
    }
    /// Cells that must be compared after the writes since the last call.
    /// Exact for dense stores and for small rectangles; for huge rectangles in
    /// sparse stores: corners, edge samples and pseudo-random interior cells.
    pub fn take_check_cells(&mut self, salt: u64) -> Vec<(u32, u32)> {
        let mut out = std::mem::take(&mut self.dirty_pts);
        let rects = std::mem::take(&mut self.dirty_rects);
        let dense = self.is_dense();
        for r in rects {
            if dense || r.area() <= 4096 {
                for y in r.y0..=r.y1 {
                    for x in r.x0..=r.x1 {
                        out.push((x, y));
                    }
                }
            } else {
                let xs = sample_axis(r.x0, r.x1, salt);
                let ys = sample_axis(r.y0, r.y1, salt.rotate_left(13));
                for &y in &ys {
                    for &x in &xs {
                        out.push((x, y));
                    }
                }
            }
        }
        out
    }
    /// All cells that were ever written (dense only) — used for whole-memory diffs.
    pub fn written_cells(&self) -> Option<Vec<(u32, u32, u32)>> {
        match &self.store {
            Store::Dense(c) => {
                let mut v = Vec::new();
                for (i, cell) in c.iter().enumerate() {
                    if *cell != 0 {
                        v.push(((i % self.w as usize) as u32, (i / self.w as usize) as u32, cell - 1));
                    }
                }
                Some(v)
            }
            _ => None,
        }
    }
}

fn sample_axis(a: u32, b: u32, salt: u64) -> Vec<u32> {
    let mut v = vec![a, b];
    if b > a {
        v.push(a + 1);
        v.push(b - 1);
        v.push(a + (b - a) / 2);
    }
    let mut s = salt | 1;
    for _ in 0..11 {
        s = s.wrapping_mul(6364136223846793005).wrapping_add(1442695040888963407);
        v.push(a + ((s >> 33) as u32) % (b - a + 1));
    }
    v.sort_unstable();
    v.dedup();
    v
}
