//! Evidence accumulation, violations, and the parallel case runner.

use std::collections::{BTreeMap, HashSet};

use crate::json::J;
use crate::prng::hash_str;

#[derive(Clone, Debug)]
pub struct Violation {
    /// exact signature (property-relative): what kind of failure, where
    pub sig: String,
    pub detail: String,
    pub case: J,
    pub case_index: u64,
    pub stage: String,
}

#[derive(Default)]
pub struct Acc {
    pub evaluations: u64,
    pub distinct: HashSet<u64>,
    pub samples: Vec<J>,
    pub counters: BTreeMap<String, u64>,
    pub sets: BTreeMap<String, HashSet<String>>,
    pub violations: Vec<Violation>,
    pub violation_count: u64,
    pub inconclusive: Vec<String>,
    pub notes: BTreeMap<String, J>,
}

pub const MAX_VIOLATIONS_KEPT: usize = 40;
pub const MAX_SAMPLES: usize = 6;

impl Acc {
    pub fn new() -> Acc {
        Acc::default()
    }
    pub fn count(&mut self, k: &str, n: u64) {
        *self.counters.entry(k.to_string()).or_insert(0) += n;
    }
    pub fn seen(&mut self, set: &str, v: impl Into<String>) {
        self.sets.entry(set.to_string()).or_default().insert(v.into());
    }
    /// one executed case; `nontrivial` says whether it counts towards
    /// distinct_nontrivial, `desc` is its canonical description
    pub fn case(&mut self, desc: &str, nontrivial: bool) {
        self.evaluations += 1;
        if nontrivial {
            self.distinct.insert(hash_str(desc));
        }
    }
    pub fn case_hash(&mut self, h: u64, nontrivial: bool) {
        self.evaluations += 1;
        if nontrivial {
            self.distinct.insert(h);
        }
    }
    pub fn sample(&mut self, j: J) {
        if self.samples.len() < MAX_SAMPLES {
            self.samples.push(j);
        }
    }
    pub fn violate(&mut self, stage: &str, case_index: u64, sig: impl Into<String>, detail: impl Into<String>, case: J) {
        self.violation_count += 1;
        let sig = sig.into();
        // keep at most 3 witnesses per signature
        let same = self.violations.iter().filter(|v| v.sig == sig).count();
        if same < 3 && self.violations.len() < MAX_VIOLATIONS_KEPT {
            self.violations.push(Violation { sig, detail: detail.into(), case, case_index, stage: stage.to_string() });
        } else {
            *self.counters.entry(format!("violations_not_kept[{}]", sig)).or_insert(0) += 1;
        }
    }
    pub fn inconclusive(&mut self, why: impl Into<String>) {
        let w = why.into();
        if !self.inconclusive.contains(&w) {
            self.inconclusive.push(w);
        }
    }
    pub fn merge(&mut self, o: Acc) {
        self.evaluations += o.evaluations;
        self.distinct.extend(o.distinct);
        for s in o.samples {
            self.sample(s);
        }
        for (k, v) in o.counters {
            *self.counters.entry(k).or_insert(0) += v;
        }
        for (k, v) in o.sets {
            self.sets.entry(k).or_default().extend(v);
        }
        for v in o.violations {
            let same = self.violations.iter().filter(|x| x.sig == v.sig).count();
            if same < 3 && self.violations.len() < MAX_VIOLATIONS_KEPT {
                self.violations.push(v);
            }
        }
        self.violation_count += o.violation_count;
        for i in o.inconclusive {
            self.inconclusive(i);
        }
        for (k, v) in o.notes {
            self.notes.insert(k, v);
        }
    }
    pub fn to_json(&self) -> J {
        let mut sets = J::obj();
        for (k, v) in &self.sets {
            let mut items: Vec<String> = v.iter().cloned().collect();
            items.sort();
            let n = items.len();
            items.truncate(64);
            sets.set(k, J::obj().with("count", n).with("values", items));
        }
        let mut counters = J::obj();
        for (k, v) in &self.counters {
            counters.set(k, *v);
        }
        let mut notes = J::obj();
        for (k, v) in &self.notes {
            notes.set(k, v.clone());
        }
        let viols: Vec<J> = self
            .violations
            .iter()
            .map(|v| {
                J::obj()
                    .with("sig", v.sig.clone())
                    .with("detail", v.detail.clone())
                    .with("case", v.case.clone())
                    .with("case_index", v.case_index)
                    .with("stage", v.stage.clone())
            })
            .collect();
        J::obj()
            .with("evaluations", self.evaluations)
            .with("distinct_nontrivial", self.distinct.len())
            .with("samples", J::Arr(self.samples.clone()))
            .with("counters", counters)
            .with("observed", sets)
            .with("notes", notes)
            .with("violations", J::Arr(viols))
            .with("violation_count", self.violation_count)
            .with("inconclusive", self.inconclusive.clone())
    }
}

/// Run `n` cases over `threads` worker threads; each worker has a private Acc.
/// `only`: run just that case index (replay).
pub fn par_cases<F>(n: u64, threads: usize, only: Option<u64>, f: F) -> Acc
where
    F: Fn(u64, &mut Acc) + Sync,
{
    // a panic of the harness itself while judging one case must not throw away what the other
    // cases found: it makes the run inconclusive, nothing more
    let guarded_case = |i: u64, a: &mut Acc| {
        if std::panic::catch_unwind(std::panic::AssertUnwindSafe(|| f(i, a))).is_err() {
            a.inconclusive(format!("harness panicked while running case {}", i));
        }
    };
    if let Some(i) = only {
        let mut a = Acc::new();
        guarded_case(i, &mut a);
        return a;
    }
    let threads = threads.max(1).min(n.max(1) as usize);
    let mut total = Acc::new();
    let next = std::sync::atomic::AtomicU64::new(0);
    let chunk = (n / (threads as u64 * 8)).max(1);
    let accs: Vec<Acc> = std::thread::scope(|s| {
        let hs: Vec<_> = (0..threads)
            .map(|_| {
                s.spawn(|| {
                    let mut a = Acc::new();
                    loop {
                        let start = next.fetch_add(chunk, std::sync::atomic::Ordering::Relaxed);
                        if start >= n {
                            break;
                        }
                        for i in start..(start + chunk).min(n) {
                            guarded_case(i, &mut a);
                        }
                    }
                    a
                })
            })
            .collect();
        hs.into_iter().map(|h| h.join().expect("harness worker panicked")).collect()
    });
    for a in accs {
        total.merge(a);
    }
    total
}
