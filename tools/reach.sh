#!/bin/sh
# Reach audit (never a verdict): which lines of /repo/src do the quick workloads execute?
# Builds a coverage-instrumented copy of the harness with the nightly toolchain (its llvm-cov
# matches), runs a scaled-down slice of every property's workload, prints per-file line coverage.
set -e
W=${1:-/tmp/mv-reach}
T=$(rustc +nightly --print sysroot)/lib/rustlib/x86_64-unknown-linux-gnu/bin
mkdir -p "$W/prof"; rm -f "$W"/prof/*
cd /verif/harness
RUSTFLAGS="-Cinstrument-coverage" cargo +nightly build --offline --quiet --profile wrapping --features batch --target-dir "$W/target"
for spec in "C01 -" "C02 -" "C03 -" "C04 -" "C05 -" "C06 -" "C07 words" "C07 words-faults" "C07 bus" "C08 -" "C09 tiny" "C09 grid" "C10 -" "C11 -" "C12 -" "C13 -" "C14 -" "C15 words" "C16 boundary" "C17 -" "C18 cmds" "C18 random" "C19 sizes" "C19 display" "C20 -"; do
  set -- $spec
  st=""; [ "$2" != "-" ] && st="--stage $2"
  LLVM_PROFILE_FILE="$W/prof/$1-$2-%p.profraw" timeout 600 "$W/target/wrapping/mv" $1 --tier quick --seed 1 --scale 0.03 --threads 2 $st --out /dev/null || true
done
"$T/llvm-profdata" merge -sparse "$W"/prof/*.profraw -o "$W/prof/all.profdata"
"$T/llvm-cov" report "$W/target/wrapping/mv" -instr-profile="$W/prof/all.profdata" 2>/dev/null | grep -E "repo/src" | awk '{printf "%-44s lines %5s missed %4s cover %s\n", $1, $(NF-5), $(NF-4), $(NF-3)}'
echo "uncovered lines:"; "$T/llvm-cov" show "$W/target/wrapping/mv" -instr-profile="$W/prof/all.profdata" --show-line-counts-or-regions 2>/dev/null | awk '/^\/repo\/src/{f=$1} /^ +[0-9]+\| +0\|/{print f, $0}' | head -80
rm -rf "$W"
