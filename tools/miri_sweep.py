#!/usr/bin/env python3
"""Run only the Miri-host layer of the given properties at thorough size (harness UB hunt)."""
import importlib.machinery, importlib.util, sys, json
loader = importlib.machinery.SourceFileLoader("check_mod", "/verif/check")
spec = importlib.util.spec_from_loader("check_mod", loader)
m = importlib.util.module_from_spec(spec); loader.exec_module(m)
seed = int(sys.argv[1]) if len(sys.argv) > 1 else 1
for prop in (sys.argv[2:] or list(m.MIRI_HOST)):
    r = m.miri_host_layer(prop, "thorough", seed)
    print(prop, {k: v for k, v in r.items() if k not in ("violations",)}, flush=True)
    for v in r["violations"][:5]:
        print("   ", v["sig"], "|", v["detail"][:300].replace("\n", " "), flush=True)
