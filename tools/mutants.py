#!/usr/bin/env python3
"""Confirm and evaluate seeded changes (never touches /repo).

  tools/mutants.py intake <dir-with-n/patch.diff,demo.rs,meta.json> ...   confirm + store under /verif/seeded/
  tools/mutants.py eval [ids...]                                          run checks against stored seeds (scratch slots)

Confirmation (in a scratch worktree): patch applies, both feature settings build, the
existing suite passes, the demonstration fails with the patch and passes without.
"""
import json, os, subprocess, sys, shutil, glob, concurrent.futures, time, re

VERIF = "/verif"
SEEDED = os.path.join(VERIF, "seeded")
SLOTS = "/tmp/hx"
NSLOTS = int(os.environ.get("MV_NSLOTS", "4"))
ENV = dict(os.environ, CARGO_NET_OFFLINE="true", CARGO_TERM_COLOR="never")

TAG = ""
NEIGH = {
 "C01": ["C01","C08","C10","C19"], "C02": ["C02","C08","C04"], "C03": ["C03","C20","C01"], "C04": ["C04","C01","C02","C19"],
 "C05": ["C05","C07","C06","C11"], "C06": ["C06","C20","C05"], "C07": ["C07","C05","C12"], "C08": ["C08","C01","C02"],
 "C09": ["C09"], "C10": ["C10","C08","C12"], "C11": ["C11","C17","C13","C05"], "C12": ["C12","C13","C07"],
 "C13": ["C13","C11","C12"], "C14": ["C14","C11","C10"], "C15": ["C15","C10","C01"], "C16": ["C16","C18"],
 "C17": ["C17","C11","C12"], "C18": ["C18","C16","C01"], "C19": ["C19","C01"], "C20": ["C20","C03","C06"],
}

def sh(cmd, cwd=None, env=None, timeout=1800):
    p = subprocess.run(cmd, cwd=cwd, env=env or ENV, capture_output=True, text=True, timeout=timeout, shell=isinstance(cmd, str))
    return p.returncode, (p.stdout + p.stderr)

def slot_setup(i):
    d = os.path.join(SLOTS, "slot%d" % i)
    repo = os.path.join(d, "repo")
    if not os.path.isdir(repo):
        os.makedirs(d, exist_ok=True)
        rc, out = sh(["git", "-C", "/repo", "worktree", "add", "--detach", repo, "HEAD", "-f"])
        assert rc == 0, out
    h = os.path.join(d, "harness")
    shutil.rmtree(h, ignore_errors=True)
    shutil.copytree(os.path.join(VERIF, "harness"), h, ignore=shutil.ignore_patterns("target"))
    t = open(os.path.join(h, "Cargo.toml")).read().replace('path = "/repo"', 'path = "%s"' % repo)
    open(os.path.join(h, "Cargo.toml"), "w").write(t)
    h16 = os.path.join(d, "harness16")
    shutil.rmtree(h16, ignore_errors=True)
    shutil.copytree(os.path.join(VERIF, "harness16"), h16, ignore=shutil.ignore_patterns("target"))
    t = open(os.path.join(h16, "Cargo.toml")).read().replace('path = "/repo"', 'path = "%s"' % repo)
    open(os.path.join(h16, "Cargo.toml"), "w").write(t)
    return d

def confirm(srcdir, slot):
    """returns dict with confirmation outcome"""
    d = slot_setup(slot)
    repo = os.path.join(d, "repo")
    env = dict(ENV, CARGO_TARGET_DIR=os.path.join(d, "confirm-target"))
    sh(["git", "checkout", "--", "."], cwd=repo); sh(["git", "clean", "-fdq", "tests", "src"], cwd=repo)
    sh(["git", "checkout", "--detach", subprocess.run(["git","-C","/repo","rev-parse","HEAD"],capture_output=True,text=True).stdout.strip()], cwd=repo)
    res = {}
    patch = os.path.join(srcdir, "patch.diff")
    rc, out = sh(["git", "apply", patch], cwd=repo)
    res["applies"] = rc == 0
    if rc != 0:
        res["error"] = out[-500:]; return res
    meta = json.load(open(os.path.join(srcdir, "meta.json")))
    nodef = "no-default-features" in json.dumps(meta)
    # some seeds only differ from the original with debug assertions off
    release = "--release" in json.dumps(meta)
    rc1, o1 = sh("cargo build --offline 2>&1 | tail -3", cwd=repo, env=env)
    rc2, o2 = sh("cargo build --offline --no-default-features 2>&1 | tail -3", cwd=repo, env=env)
    res["builds"] = "error" not in o1 and "error" not in o2
    rc, out = sh("cargo test --workspace --no-fail-fast --offline 2>&1 | grep -E '^test result|FAILED|^error'", cwd=repo, env=env)
    # the 33 existing tests pass (a patch may bring an extra unit test of its own along)
    m = re.search(r"test result: ok\. (\d+) passed", out)
    res["suite_passes_with_patch"] = ("FAILED" not in out and "error" not in out and m is not None and int(m.group(1)) >= 33)
    shutil.copy(os.path.join(srcdir, "demo.rs"), os.path.join(repo, "tests", "demo.rs"))
    def demo():
        outs = []
        for flags in ([""] + (["--no-default-features"] if nodef else []) + (["--release"] if release else [])):
            rc, out = sh("cargo test --offline %s --test demo 2>&1 | grep -E '^test result|error(\\[|:)' | head -5" % flags, cwd=repo, env=env)
            outs.append(out)
        return outs
    with_p = demo()
    res["demo_fails_with_patch"] = any("FAILED" in o or re.search(r"[1-9]\d* failed", o) for o in with_p)
    sh(["git", "checkout", "--", "src"], cwd=repo)
    without = demo()
    res["demo_passes_without_patch"] = all(("FAILED" not in o and "error" not in o and " passed" in o) for o in without)
    res["demo_output_with"] = [o.strip() for o in with_p]; res["demo_output_without"] = [o.strip() for o in without]
    os.unlink(os.path.join(repo, "tests", "demo.rs"))
    sh(["git", "checkout", "--", "."], cwd=repo); sh(["git", "clean", "-fdq", "tests", "src"], cwd=repo)
    res["confirmed"] = all(res.get(k) for k in ("applies", "builds", "suite_passes_with_patch", "demo_fails_with_patch", "demo_passes_without_patch"))
    return res

def evaluate(seed_id, slot, props=None, tier="quick"):
    d = slot_setup(slot)
    repo = os.path.join(d, "repo")
    sd = os.path.join(SEEDED, seed_id)
    meta = json.load(open(os.path.join(sd, "meta.json")))
    sh(["git", "checkout", "--", "."], cwd=repo); sh(["git", "clean", "-fdq", "tests", "src"], cwd=repo)
    rc, out = sh(["git", "apply", os.path.join(sd, "patch.diff")], cwd=repo)
    if rc != 0:
        return {"error": "patch does not apply: " + out[-300:]}
    env = dict(ENV, MV_NO_SANITIZERS=os.environ.get("MV_NO_SANITIZERS", "1"), MV_HARNESS16=os.path.join(d, "harness16"),
               MV_REPO=repo, MV_HARNESS=os.path.join(d, "harness"), MV_TARGET=os.path.join(d, "target"),
               MV_EVIDENCE=os.path.join(d, "evidence"), MV_REPLAYS=os.path.join(d, "replays"))
    results = {}
    for p in (props or NEIGH[meta["property"]]):
        t0 = time.time()
        rc, out = sh([os.path.join(VERIF, "check"), p, "--tier", tier], cwd=VERIF, env=env, timeout=3600)
        sigs = sorted(set(re.findall(r"signature: (.*?) \(", out)))
        results[p] = {"exit": rc, "signatures": sigs[:12], "inconclusive": re.findall(r"INCONCLUSIVE.*", out)[:3], "wall_s": round(time.time() - t0, 1)}
    sh(["git", "checkout", "--", "."], cwd=repo); sh(["git", "clean", "-fdq", "tests", "src"], cwd=repo)
    return results

def main():
    cmd = sys.argv[1]
    os.makedirs(SEEDED, exist_ok=True)
    if cmd == "intake":
        global TAG
        jobs = []
        for a in sys.argv[2:]:
            if a.startswith("--tag="):
                TAG = a.split("=")[1] + "-"
        for base in [a for a in sys.argv[2:] if not a.startswith("--")]:
            for sub in sorted(glob.glob(os.path.join(base, "[0-9]*"))):
                if os.path.exists(os.path.join(sub, "patch.diff")) and os.path.exists(os.path.join(sub, "meta.json")):
                    jobs.append(sub)
        def work(args):
            i, sub = args
            meta = json.load(open(os.path.join(sub, "meta.json")))
            sid = "%s-%s%s" % (meta["property"], TAG, os.path.basename(sub))
            if os.path.exists(os.path.join(SEEDED, sid, "meta.json")):
                return sid, "exists"
            r = confirm(sub, i % NSLOTS)
            if r.get("confirmed"):
                dst = os.path.join(SEEDED, sid)
                os.makedirs(dst, exist_ok=True)
                for f in ("patch.diff", "demo.rs"):
                    shutil.copy(os.path.join(sub, f), os.path.join(dst, f))
                meta["confirmation"] = {k: v for k, v in r.items()}
                meta["confirmation"]["how"] = "tools/mutants.py intake: scratch worktree of /repo HEAD; git apply; cargo build (both feature settings); cargo test --workspace; demo as tests/demo.rs with and without the patch"
                json.dump(meta, open(os.path.join(dst, "meta.json"), "w"), indent=1)
            return sid, r
        # one job per slot at a time
        by_slot = {k: [j for n, j in enumerate(jobs) if n % NSLOTS == k] for k in range(NSLOTS)}
        def run_slot(k):
            return [work((k, j)) for j in by_slot[k]]
        with concurrent.futures.ThreadPoolExecutor(NSLOTS) as ex:
            for lst in ex.map(run_slot, range(NSLOTS)):
                for sid, r in lst:
                    print(sid, r if isinstance(r, str) else {k: v for k, v in r.items() if k in ("confirmed", "applies", "builds", "suite_passes_with_patch", "demo_fails_with_patch", "demo_passes_without_patch", "error")}, flush=True)
    elif cmd == "eval":
        tier = "quick"
        ids = [a for a in sys.argv[2:] if not a.startswith("--")]
        allp = "--all-props" in sys.argv
        only = [a.split("=")[1].split(",") for a in sys.argv if a.startswith("--props=")]
        extra = [a.split("=")[1].split(",") for a in sys.argv if a.startswith("--extra=")]
        if not ids:
            ids = sorted(os.listdir(SEEDED))
        by_slot = {k: [j for n, j in enumerate(ids) if n % NSLOTS == k] for k in range(NSLOTS)}
        def run_slot(k):
            out = []
            for sid in by_slot[k]:
                props = only[0] if only else (["C%02d" % i for i in range(1, 21)] if allp else None)
                if "--own-only" in sys.argv:
                    own = json.load(open(os.path.join(SEEDED, sid, "meta.json")))["property"]
                    props = [own] + (extra[0] if (extra and "-w2-" in sid) else [])
                elif props is None and extra:
                    own = json.load(open(os.path.join(SEEDED, sid, "meta.json")))["property"]
                    props = NEIGH[own] + [p for p in extra[0] if p not in NEIGH[own]]
                r = evaluate(sid, k, props, tier)
                mp = os.path.join(SEEDED, sid, "meta.json")
                meta = json.load(open(mp))
                if "--fresh" in sys.argv:
                    meta["detection"] = {}
                meta.setdefault("detection", {})
                if "error" in r:
                    meta["detection"]["error"] = r["error"]
                else:
                    meta["detection"].update(r)
                    meta["detection_how"] = "patch applied to a scratch worktree of /repo; ./check <prop> --tier quick with MV_* overrides (tools/mutants.py eval); exit 1 = VIOLATION reported"
                json.dump(meta, open(mp, "w"), indent=1)
                out.append((sid, r))
                print(sid, {p: (v["exit"], v["signatures"][:2]) for p, v in r.items()} if "error" not in r else r, flush=True)
            return out
        with concurrent.futures.ThreadPoolExecutor(NSLOTS) as ex:
            list(ex.map(run_slot, range(NSLOTS)))

if __name__ == "__main__":
    main()
