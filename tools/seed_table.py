#!/usr/bin/env python3
"""Print the markdown table of seeded changes and which checks caught them (from seeded/*/meta.json)."""
import json, glob, os
rows = []
for d in sorted(glob.glob("/verif/seeded/*")):
    m = json.load(open(os.path.join(d, "meta.json")))
    det = m.get("detection", {})
    caught = [p for p, v in sorted(det.items()) if isinstance(v, dict) and v.get("exit") == 1]
    missed = [p for p, v in sorted(det.items()) if isinstance(v, dict) and v.get("exit") == 0]
    own = det.get(m["property"], {})
    sig = (own.get("signatures") or [""])[0] if isinstance(own, dict) else ""
    rows.append((os.path.basename(d), m["summary"].replace("|", "/").replace("\n", " ")[:150], m.get("needs", "").replace("|", "/").replace("\n", " ")[:150],
                 ", ".join(caught) or "—", ", ".join(missed) or "—", sig))
print("| seed | change | needs | caught by (quick) | ran silent | first signature of own check |")
print("|---|---|---|---|---|---|")
for r in rows:
    print("| %s | %s | %s | %s | %s | `%s` |" % r)
