#!/usr/bin/env python3
"""Markdown table of all seeded changes and which quick checks report them (from
seeded/*/meta.json). `--write` replaces the block between the SEED-TABLE markers in DESIGN.md."""
import json, glob, os, sys
rows = []
tot = own_hit = any_hit = 0
for d in sorted(glob.glob("/verif/seeded/*")):
    m = json.load(open(os.path.join(d, "meta.json")))
    det = m.get("detection", {})
    caught = [p for p, v in sorted(det.items()) if isinstance(v, dict) and v.get("exit") == 1]
    silent = [p for p, v in sorted(det.items()) if isinstance(v, dict) and v.get("exit") == 0]
    own = det.get(m["property"], {})
    rep = m.get("detection_on_repo", {})
    tot += 1
    own_hit += 1 if (isinstance(own, dict) and own.get("exit") == 1) else 0
    any_hit += 1 if caught else 0
    sig = ""
    for p in [m["property"]] + caught:
        v = det.get(p, {})
        if isinstance(v, dict) and v.get("signatures"):
            sig = "%s: %s" % (p, v["signatures"][0])
            break
    summ = " ".join(m["summary"].replace("|", "/").split())
    rows.append("| %s | %s | %s | %s | %s | `%s` |" % (os.path.basename(d), summ[:170] + ("…" if len(summ) > 170 else ""), ", ".join(caught) or "—", ", ".join(silent) or "—",
                                                   ("exit %s" % rep.get("exit")) if rep else "—", sig))
head = ["%d seeded changes; %d reported by the quick check of their own property, %d by at least one quick check (scratch-copy evaluation, `tools/mutants.py eval`). "
        "\"on /repo\" is the exit code of the own property's registered quick command with the patch applied to /repo itself (`tools/confirm_on_repo.py`; — = not run that way)." % (tot, own_hit, any_hit),
        "", "| seed | change | reported by | ran silent | own check on /repo | first signature |", "|---|---|---|---|---|---|"]
out = "\n".join(head + rows) + "\n"
if "--write" in sys.argv:
    s = open("/verif/DESIGN.md").read()
    a = s.index("<!-- SEED-TABLE -->")
    b = s.index("<!-- /SEED-TABLE -->") if "<!-- /SEED-TABLE -->" in s else None
    if b is None:
        s = s[:a] + "<!-- SEED-TABLE -->\n" + out + "<!-- /SEED-TABLE -->\n" + s[a + len("<!-- SEED-TABLE -->\n"):]
    else:
        s = s[:a] + "<!-- SEED-TABLE -->\n" + out + s[b:]
    open("/verif/DESIGN.md", "w").write(s)
else:
    sys.stdout.write(out)
