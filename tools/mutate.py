#!/usr/bin/env python3
"""Systematic mutation campaign (complements the hand-written seeded changes).

For every source line of /repo/src (tests and comments excluded) apply simple operators
(relational flips, +-1 slips, constant changes, boolean flips, dropped `?`-less statements are
not attempted). A mutant is *admitted* when the crate still builds in both feature settings and
the repository's own test suite still passes; admitted mutants are run against the quick checks
relevant for the file (sanitizer layers off). Survivors are listed for manual triage
(equivalent mutant / outside every property / genuine gap).

  tools/mutate.py gen                  -> /verif/mutation/mutants.json
  tools/mutate.py run [--limit N]      -> /verif/mutation/results.json (resumable)
  tools/mutate.py report
"""
import json, os, re, subprocess, sys, shutil, time, concurrent.futures, hashlib

VERIF = "/verif"
OUT = os.path.join(VERIF, "mutation")
SLOTS = "/tmp/hx"
ENV = dict(os.environ, CARGO_NET_OFFLINE="true", CARGO_TERM_COLOR="never")

FILE_PROPS = [
    (r"^src/batch\.rs$", ["C03", "C20", "C02", "C01", "C08"]),
    (r"^src/graphics\.rs$", ["C04", "C02", "C01", "C08", "C20", "C19"]),
    (r"^src/lib\.rs$", ["C01", "C10", "C16", "C13", "C12", "C08", "C02"]),
    (r"^src/builder\.rs$", ["C09", "C17", "C11", "C12"]),
    (r"^src/interface/spi\.rs$", ["C06", "C20", "C05", "C12"]),
    (r"^src/interface/parallel\.rs$", ["C07", "C05", "C12"]),
    (r"^src/interface\.rs$", ["C05", "C01"]),
    (r"^src/dcs/set_address_mode\.rs$", ["C14", "C11", "C10"]),
    (r"^src/dcs", ["C18", "C16", "C11", "C01"]),
    (r"^src/options", ["C15", "C14", "C01", "C10", "C11"]),
    (r"^src/models", ["C11", "C17", "C13", "C05"]),
    (r"^src/test_image\.rs$", ["C19"]),
]

OPS = [
    (r" <= ", " < "), (r" >= ", " > "), (r" < ", " <= "), (r" > ", " >= "),
    (r"==", "!="), (r"!=", "=="), (r"&&", "||"), (r"\|\|", "&&"),
    (r"\+ 1\b", "+ 2"), (r"\+ 1\b", ""), (r"- 1\b", "- 2"), (r"- 1\b", ""),
    (r"\btrue\b", "false"), (r"\bfalse\b", "true"),
    (r"\bmin\(", "max("), (r"\bmax\(", "min("),
    (r"\.0\b", ".1"), (r"\.1\b", ".0"),
    (r"\bset_low\b", "set_high"), (r"\bset_high\b", "set_low"),
    (r"<< 2\b", "<< 1"), (r">> 8\b", ">> 4"), (r"<< 4\b", "<< 3"),
    (r"\bto_be_bytes\b", "to_le_bytes"),
    (r"\bwidth\b", "height"), (r"\bheight\b", "width"),
    (r"\breverse_rows\b", "reverse_columns"), (r"\breverse_columns\b", "reverse_rows"),
    (r"\bsx\b", "sy"), (r"\bex\b", "ey"), (r"\bx_left\b", "x_right"), (r"\by_top\b", "y_bottom"),
    (r"\bx\b", "y"),
]
NUM = re.compile(r"\b(0x[0-9A-Fa-f_]+|0b[01_]+|\d[\d_]*)\b")


def sh(cmd, cwd=None, env=None, timeout=3600):
    p = subprocess.run(cmd, cwd=cwd, env=env or ENV, capture_output=True, text=True, timeout=timeout, shell=isinstance(cmd, str))
    return p.returncode, p.stdout + p.stderr


def code_lines(path):
    """(lineno, text) of lines that are code: outside #[cfg(test)] mod, not comments / docs / attributes."""
    out = []
    lines = open(path).read().split("\n")
    in_tests = False
    in_block = False
    for i, l in enumerate(lines):
        st = l.strip()
        if in_block:
            if "*/" in st:
                in_block = False
            continue
        if st.startswith("/*"):
            if "*/" not in st:
                in_block = True
            continue
        if st.startswith("#[cfg(test)]"):
            in_tests = True
        if in_tests:
            continue
        if not st or st.startswith("//") or st.startswith("#[") or st.startswith("#!") or st.startswith("use ") or st.startswith("pub use ") or st.startswith("mod ") or st.startswith("pub mod "):
            continue
        if "_mock" in path:
            continue
        if re.match(r"^[01, /]+$", st):
            continue  # glyph bitmaps of the test image: their shape is not part of any property
        out.append((i, l))
    return out, lines


def gen():
    os.makedirs(OUT, exist_ok=True)
    muts = []
    files = subprocess.run(["git", "-C", "/repo", "ls-files", "src"], capture_output=True, text=True).stdout.split()
    for f in files:
        if not f.endswith(".rs") or f.endswith("_troubleshooting.rs"):
            continue
        path = os.path.join("/repo", f)
        cl, lines = code_lines(path)
        in_mock = False
        for i, l in cl:
            if "pub mod _mock" in l:
                in_mock = True
            if in_mock and f == "src/lib.rs":
                continue
            code = l.split("//")[0]
            seen = set()
            for pat, rep in OPS:
                for m in re.finditer(pat, code):
                    new = code[:m.start()] + rep + code[m.end():] + l[len(code):]
                    if new != l and (i, new) not in seen:
                        seen.add((i, new))
                        muts.append({"file": f, "line": i + 1, "old": l, "new": new, "op": "%s->%s" % (pat, rep)})
            for m in NUM.finditer(code):
                tok = m.group(1)
                try:
                    v = int(tok.replace("_", ""), 0)
                except ValueError:
                    continue
                for nv in {v + 1, v - 1 if v > 0 else v + 2, v ^ 0x10 if v >= 0x10 else v + 3}:
                    if nv == v or nv < 0:
                        continue
                    rep = hex(nv) if tok.startswith("0x") else (bin(nv) if tok.startswith("0b") else str(nv))
                    new = code[:m.start()] + rep + code[m.end():] + l[len(code):]
                    if (i, new) not in seen:
                        seen.add((i, new))
                        muts.append({"file": f, "line": i + 1, "old": l, "new": new, "op": "const %s->%s" % (tok, rep)})
    # a deterministic sample: all mutants of the small core files, a hash-selected share of the model files
    sel = []
    for m in muts:
        hid = hashlib.sha1(("%s:%d:%s" % (m["file"], m["line"], m["new"])).encode()).hexdigest()
        m["id"] = hid[:10]
        share = 8 if m["file"].startswith("src/models/") else (3 if m["op"].startswith("const") else 1)
        if int(hid[:6], 16) % share == 0:
            sel.append(m)
    json.dump(sel, open(os.path.join(OUT, "mutants.json"), "w"), indent=0)
    print(len(muts), "mutants generated,", len(sel), "selected")


def props_for(f):
    for pat, props in FILE_PROPS:
        if re.search(pat, f):
            return props
    return ["C01"]


def slot_setup(i):
    d = os.path.join(SLOTS, "slot%d" % i)
    repo = os.path.join(d, "repo")
    if not os.path.isdir(repo):
        os.makedirs(d, exist_ok=True)
        rc, out = sh(["git", "-C", "/repo", "worktree", "add", "--detach", repo, "HEAD", "-f"])
        assert rc == 0, out
    for name in ("harness", "harness16"):
        h = os.path.join(d, name)
        shutil.rmtree(h, ignore_errors=True)
        shutil.copytree(os.path.join(VERIF, name), h, ignore=shutil.ignore_patterns("target"))
        t = open(os.path.join(h, "Cargo.toml")).read().replace('path = "/repo"', 'path = "%s"' % repo)
        open(os.path.join(h, "Cargo.toml"), "w").write(t)
    return d


def run_one(m, slot, d):
    repo = os.path.join(d, "repo")
    sh(["git", "checkout", "--", "."], cwd=repo)
    path = os.path.join(repo, m["file"])
    lines = open(path).read().split("\n")
    if lines[m["line"] - 1] != m["old"]:
        return {"status": "stale"}
    lines[m["line"] - 1] = m["new"]
    open(path, "w").write("\n".join(lines))
    env = dict(ENV, CARGO_TARGET_DIR=os.path.join(d, "confirm-target"))
    res = {}
    try:
        rc, out = sh("cargo build --offline --quiet 2>&1 | tail -3; cargo build --offline --quiet --no-default-features 2>&1 | tail -3", cwd=repo, env=env)
        if "error" in out:
            return {"status": "does-not-compile"}
        rc, out = sh("cargo test --workspace --no-fail-fast --offline 2>&1 | grep -E '^test result|FAILED|^error'", cwd=repo, env=env, timeout=900)
        if "FAILED" in out or "error" in out or "33 passed" not in out:
            return {"status": "killed-by-existing-tests"}
        cenv = dict(ENV, MV_NO_SANITIZERS="1", MV_REPO=repo, MV_HARNESS=os.path.join(d, "harness"), MV_HARNESS16=os.path.join(d, "harness16"),
                    MV_TARGET=os.path.join(d, "target"), MV_EVIDENCE=os.path.join(d, "evidence"), MV_REPLAYS=os.path.join(d, "replays"))
        res = {"status": "survived", "checks": {}}
        for p in props_for(m["file"]):
            t0 = time.time()
            try:
                rc, out = sh([os.path.join(VERIF, "check"), p, "--tier", "quick"], cwd=VERIF, env=cenv, timeout=1500)
            except subprocess.TimeoutExpired:
                rc, out = 2, "timeout"
            sigs = sorted(set(re.findall(r"signature: (.*?) \(", out)))
            res["checks"][p] = {"exit": rc, "sig": sigs[:2], "s": round(time.time() - t0)}
            if rc == 1:
                res["status"] = "detected"
                res["by"] = p
                break
        return res
    except subprocess.TimeoutExpired:
        return {"status": "timeout"}
    finally:
        sh(["git", "checkout", "--", "."], cwd=repo)


def run():
    muts = json.load(open(os.path.join(OUT, "mutants.json")))
    rp = os.path.join(OUT, "results.json")
    results = json.load(open(rp)) if os.path.exists(rp) else {}
    limit = None
    for a in sys.argv:
        if a.startswith("--limit="):
            limit = int(a.split("=")[1])
    todo = [m for m in muts if m["id"] not in results]
    if limit:
        todo = todo[:limit]
    nslots = 4
    slots = [slot_setup(i) for i in range(nslots)]
    import threading
    lock = threading.Lock()

    def worker(k):
        for j, m in enumerate(todo):
            if j % nslots != k:
                continue
            r = run_one(m, k, slots[k])
            with lock:
                results[m["id"]] = dict(m, **r)
                json.dump(results, open(rp, "w"), indent=0)
                print(m["id"], m["file"], m["line"], m["op"][:30], r.get("status"), r.get("by", ""), flush=True)

    with concurrent.futures.ThreadPoolExecutor(nslots) as ex:
        list(ex.map(worker, range(nslots)))


def report():
    results = json.load(open(os.path.join(OUT, "results.json")))
    from collections import Counter
    c = Counter(r["status"] for r in results.values())
    print(dict(c))
    by = Counter(r.get("by") for r in results.values() if r["status"] == "detected")
    print("detected by:", dict(by))
    for r in sorted(results.values(), key=lambda r: (r["file"], r["line"])):
        if r["status"] in ("survived", "timeout"):
            print("%s %s:%d  %s\n      - %s\n      + %s" % (r["status"].upper(), r["file"], r["line"], r["op"], r["old"].strip(), r["new"].strip()))


if __name__ == "__main__":
    {"gen": gen, "run": run, "report": report}[sys.argv[1]]()
