import json,sys
d=json.load(sys.stdin)
print({k:d[k] for k in ['evaluations','distinct_nontrivial','violation_count','inconclusive','wall_s']})
for v in d['violations'][:int(sys.argv[1]) if len(sys.argv)>1 else 12]: print(v['stage'],v['case_index'],v['sig'],'|',v['detail'][:400], '|', json.dumps(v['case'].get('config')))
print({k:v for k,v in d['counters'].items() if not k.startswith('calls[')})
print({k:v['count'] for k,v in d['observed'].items()})
