#!/usr/bin/env python3
"""Run the registered quick check of the seed's own property against /repo with the seeded
patch applied (git -C /repo apply), then undo it (git -C /repo checkout -- .). Sequential."""
import json, os, subprocess, sys, re, time
ids = sys.argv[1:] or sorted(os.listdir("/verif/seeded"))
assert subprocess.run(["git", "-C", "/repo", "status", "--porcelain"], capture_output=True, text=True).stdout.strip() == "", "/repo not clean"
for sid in ids:
    sd = os.path.join("/verif/seeded", sid)
    meta = json.load(open(os.path.join(sd, "meta.json")))
    prop = meta["property"]
    env = dict(os.environ, MV_EVIDENCE="/tmp/confirm-ev", MV_REPLAYS="/tmp/confirm-replays", CARGO_NET_OFFLINE="true")
    if sid != "C04-3":
        env["MV_NO_SANITIZERS"] = "1"
    t0 = time.time()
    r = subprocess.run(["git", "-C", "/repo", "apply", os.path.join(sd, "patch.diff")], capture_output=True, text=True)
    if r.returncode != 0:
        print(sid, "patch failed", r.stderr[-200:], flush=True)
        continue
    try:
        p = subprocess.run(["./check", prop, "--tier", "quick"], cwd="/verif", env=env, capture_output=True, text=True, timeout=3600)
        out = p.stdout
        rc = p.returncode
    finally:
        subprocess.run(["git", "-C", "/repo", "checkout", "--", "."], check=True)
    sigs = sorted(set(re.findall(r"signature: (.*?) \(", out)))
    meta["detection_on_repo"] = {"cmd": "git -C /repo apply seeded/%s/patch.diff; ./check %s --tier quick; git -C /repo checkout -- ." % (sid, prop),
                                 "exit": rc, "violation_lines": out.count("VIOLATION property="), "signatures": sigs[:8], "wall_s": round(time.time() - t0, 1)}
    json.dump(meta, open(os.path.join(sd, "meta.json"), "w"), indent=1)
    print(sid, prop, "exit", rc, sigs[:2], "%.0fs" % (time.time() - t0), flush=True)
# leave /repo clean and the harness rebuilt for the clean tree
print(subprocess.run(["git", "-C", "/repo", "status", "--porcelain"], capture_output=True, text=True).stdout or "repo clean", flush=True)
